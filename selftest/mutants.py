# Registered mutants (must be caught by the named rule) and benign variants
# (must stay silent). Each edit replaces exactly one occurrence of `old`.
# All mutants compile; "needs" says what it takes for the defect to manifest.

def M(id, prop, rule, file, old, new, needs="", expect="violation", more=()):
    edits = [{"file": file, "old": old, "new": new}] + [{"file": f, "old": o, "new": n} for (f, o, n) in more]
    return {"id": id, "property": prop, "rule": rule, "expect": expect, "edits": edits, "needs": needs}

def B(id, prop, file, old, new, more=()):
    return M(id, prop, "", file, old, new, expect="silent", more=more)

TCP = "input/tcplistener/tcplinelistener.go"
ORC = "orchestrate/obykeyset/orchestrator.go"
PWB = "base/bsupport/pipelineworkerbase.go"
LPW = "base/bsupport/logprocessingworker.go"
PIPE = "orchestrate/obase/pipelines.go"
SESS = "output/baseoutput/clientsession.go"
CW = "output/baseoutput/clientworker.go"
BUF = "buffer/hybridbuffer/bufferer.go"
FEED = "buffer/hybridbuffer/outputfeeder.go"
CMAN = "buffer/hybridbuffer/chunkmanager.go"
COP = "buffer/hybridbuffer/chunkoperator.go"
LPR = "base/bsupport/logparsingreceiver.go"

MUTANTS = [
    # ---------------- C01
    M("c01-r1-no-flushall", "C01", "C01.R1", TCP, "\t\tmlineReader.FlushAll()\n", "", "connection closed with an unterminated last line"),
    M("c01-r1-no-final-flush", "C01", "C01.R1", TCP, "\trecvChan.Flush()\n\tconnLogger.Info(\"ended\")", "\tconnLogger.Info(\"ended\")", "records still buffered in the sink when the client disconnects"),
    B("c01-r1-benign-defer-flush", "C01", TCP, "\tdefer recvChan.Close()\n", "\tdefer recvChan.Close()\n\tdefer recvChan.Flush()\n",
      more=[(TCP, "\trecvChan.Flush()\n\tconnLogger.Info(\"ended\")", "\tconnLogger.Info(\"ended\")")]),
    M("c01-r2-tick-only", "C01", "C01.R2", LPR, "\tif len(sess.bufferedLogs) > 0 {\n\t\tsess.sendBuffer()\n\t}\n\tsess.outputSink.Tick()", "\tsess.outputSink.Tick()", "flush with fewer than 500 buffered records"),
    M("c01-r3-close-not-forced", "C01", "C01.R3", ORC, "\toc.flushAllLocalBuffers(true)", "\toc.flushAllLocalBuffers(false)", "connection closes within 1 s of the last flush"),
    B("c01-r3-benign-inline", "C01", ORC, "\toc.flushAllLocalBuffers(true)",
      "\tnow := time.Now()\n\toc.workerMap.Walk(func(mergedKey string, cache *channelInputBuffer) {\n\t\tif len(cache.PendingLogs) == 0 {\n\t\t\treturn\n\t\t}\n\t\tcache.Flush(now, oc.logger, mergedKey)\n\t})"),
    M("c01-r4-signal-before-onstop", "C01", "C01.R4", PWB, "\tif worker._baseOnStop != nil {\n\t\tworker._baseOnStop()\n\t}\n\tworker._baseStopped.Signal()", "\tworker._baseStopped.Signal()\n\tif worker._baseOnStop != nil {\n\t\tworker._baseOnStop()\n\t}", "shutdown while a chunk is being assembled"),
    M("c01-r4-onstop-no-flush", "C01", "C01.R4", LPW, "func (worker *LogProcessingWorker) onStop() {\n\tworker.flushChunk()\n", "func (worker *LogProcessingWorker) onStop() {\n", "shutdown with a partially filled chunk"),
    M("c01-r5-destroy-early", "C01", "C01.R5", PIPE, "\t\tprocWorker.Start()\n", "\t\tprocWorker.Start()\n\t\toutputSettingsSlice[0].bufferer.Destroy()\n", "any chunk produced after start"),
    B("c01-r5-benign-for-loop", "C01", PIPE, "\t\t\tlo.ForEach(outputSettingsSlice, func(settings outputWorkerSettings, _ int) {\n\t\t\t\tsettings.bufferer.Destroy()\n\t\t\t})",
      "\t\t\tfor _, settings := range outputSettingsSlice {\n\t\t\t\tsettings.bufferer.Destroy()\n\t\t\t}"),
    M("c01-r5-onstopped-first", "C01", "C01.R5", PIPE, "\t\t\tlo.ForEach(outputSettingsSlice, func(settings outputWorkerSettings, _ int) {\n\t\t\t\tsettings.bufferer.Destroy()\n\t\t\t})\n\t\t\tonStopped()",
      "\t\t\tonStopped()\n\t\t\tlo.ForEach(outputSettingsSlice, func(settings outputWorkerSettings, _ int) {\n\t\t\t\tsettings.bufferer.Destroy()\n\t\t\t})", "process exits while buffers are still saving"),
    M("c01-r6-remove-on-leftover", "C01", "C01.R6", CMAN, "\tman.metrics.pendingChunks.Dec()\n\tman.metrics.leftoverChunksTotal.Inc()", "\tman.operator.RemoveChunk(chunk)\n\tman.metrics.pendingChunks.Dec()\n\tman.metrics.leftoverChunksTotal.Inc()", "stop with unacknowledged chunks"),
    M("c01-r7-skip-output-window", "C01", "C01.R7", FEED, "\tfor chunk := range feeder.outputChannel {\n\t\t// scopelint:ignore\n\t\tif feeder.chunkMan.UnloadOrDropChunk(&chunk) {\n\t\t\tnumSaved++\n\t\t} else {\n\t\t\tnumDropped++\n\t\t}\n\t}", "\tfor range feeder.outputChannel {\n\t\tnumDropped++\n\t}", "stop with chunks in the in-memory window"),
    M("c01-r7-forget-chunk-in-hand", "C01", "C01.R7", FEED, "\tif lastInputChunk.ID != \"\" {\n\t\tif feeder.chunkMan.UnloadOrDropChunk(&lastInputChunk) {\n\t\t\tnumSaved++\n\t\t} else {\n\t\t\tnumDropped++\n\t\t}\n\t}\n", "\t_ = lastInputChunk\n", "stop while the feeder blocks on a full output window"),
    M("c01-r8-feeder-before-recovery", "C01", "C01.R8", BUF, "\tbuf.recoverExistingChunks()\n\tgo buf.feeder.Run()", "\tgo buf.feeder.Run()\n\tbuf.recoverExistingChunks()", "restart with queued files while new chunks arrive"),
    M("c01-r8-first-pair-only", "C01", "C01.R8", "orchestrate/obykeyset/config.go", "\tfor _, pair := range args.OutputBufferPairs {", "\tfor _, pair := range args.OutputBufferPairs[:1] {", "two outputs, queued files only under the second"),
    M("c01-r9-walk-skips-entries", "C01", "C01.R9", "util/localcachedmap/localcachedmap.go", "\tfor key, localCache := range lm.localMap {\n\t\taction(key, localCache)", "\tfor key, localCache := range lm.localMap {\n\t\tif len(key) > 100 {\n\t\t\tcontinue\n\t\t}\n\t\taction(key, localCache)", "a key set with long label values: its buffer is never flushed at Close"),
    M("c01-r9-new-entry-not-cached", "C01", "C01.R9", "util/localcachedmap/localcachedmap.go", "\tlm.localMap[permanentMergedKey] = newLocalCache\n", "", "first record of a key set on a connection: a fresh wrapper per record, none in the map"),
    M("c01-r9-evict-idle-buffers", "C01", "C01.R9", "util/localcachedmap/localcachedmap.go", "\tfor key, localCache := range lm.localMap {\n\t\taction(key, localCache)", "\tfor key, localCache := range lm.localMap {\n\t\tif len(lm.localMap) > 900 {\n\t\t\tdelete(lm.localMap, key)\n\t\t}\n\t\taction(key, localCache)", "more than 900 key sets on one connection"),
    M("c01-r9-flush-recent-only", "C01", "C01.R9", ORC, "\toc.workerMap.Walk(func(mergedKey string, cache *channelInputBuffer) {", "\trecent := map[string]*channelInputBuffer{}\n\toc.workerMap.Walk(func(k string, b *channelInputBuffer) {\n\t\tif now.Sub(b.LastFlushTime) < time.Minute {\n\t\t\trecent[k] = b\n\t\t}\n\t})\n\twalk := func(f func(string, *channelInputBuffer)) {\n\t\tfor k, b := range recent {\n\t\t\tf(k, b)\n\t\t}\n\t}\n\twalk(func(mergedKey string, cache *channelInputBuffer) {", "a buffer whose last flush is over a minute old and that holds records at Close"),
    B("c01-r9-benign-walk-renamed-vars", "C01", "util/localcachedmap/localcachedmap.go", "\tfor key, localCache := range lm.localMap {\n\t\taction(key, localCache)", "\tm := lm.localMap\n\tfor k, v := range m {\n\t\taction(k, v)"),
    # ---------------- C02
    M("c02-r1-ack-on-send", "C02", "C02.R1", SESS, "\tcase session.ackerChan <- chunk:\n\t\tsession.metrics.OnForwarded(chunk)", "\tcase session.ackerChan <- chunk:\n\t\tsession.onChunkAcked(chunk)\n\t\tsession.metrics.OnForwarded(chunk)", "upstream accepts bytes but never ACKs"),
    M("c02-r1-ack-before-read", "C02", "C02.R1", SESS, "\t\tclogger.Debugf(\"received pending chunk %s\", chunk.ID)\n", "\t\tclogger.Debugf(\"received pending chunk %s\", chunk.ID)\n\t\t\t\tsession.onChunkAcked(chunk)\n", "ACK read fails after the send"),
    M("c02-r2-always-ack-next", "C02", "C02.R2", SESS, "\t\t\tif chunk, exists := pendingChunksByID[ackedChunkID]; exists {\n\t\t\t\tnextChunk = chunk\n\t\t\t} else {", "\t\t\tif _, exists := pendingChunksByID[ackedChunkID]; exists {\n\t\t\t} else {", "out-of-order ACK"),
    M("c02-r3-queue-on-error", "C02", "C02.R3", SESS, "\t\tsession.abortConn(func() {\n\t\t\tsession.logger.Info(\"abort connection after error sending chunks to interrupt acknowledger\")\n\t\t})\n\t\treturn false, reconnectWithDelay\n\t}", "\t\tsession.abortConn(func() {\n\t\t\tsession.logger.Info(\"abort connection after error sending chunks to interrupt acknowledger\")\n\t\t})\n\t}", "send error (partial write) followed by a stale ACK"),
    M("c02-r4-clear-before-send", "C02", "C02.R4", SESS, "\t\t\tsession.logger.Debugf(\"received new: %v\", &chunk)\n\t\t\tsession.lastChunk = &chunk\n", "\t\t\tsession.logger.Debugf(\"received new: %v\", &chunk)\n\t\t\tsession.lastChunk = nil\n", "send error on a freshly taken chunk"),
    M("c02-r4-forget-in-resend", "C02", "C02.R4", SESS, "\t\t\tsession.logger.Debugf(\"resending: %v\", &chunk)\n\t\t\tsession.lastChunk = &chunk\n", "\t\t\tsession.logger.Debugf(\"resending: %v\", &chunk)\n", "send error while resending leftovers"),
    M("c02-r5-omit-pending", "C02", "C02.R5", SESS, "\tnewLeftovers = append(newLeftovers, fromAckerPending...)\n", "", "session ends with sent-but-unacknowledged chunks"),
    M("c02-r5-omit-lastchunk", "C02", "C02.R5", SESS, "\tif session.lastChunk != nil {\n\t\tnewLeftovers = append(newLeftovers, *session.lastChunk)\n\t\tinproc++\n\t}", "\tif session.lastChunk != nil {\n\t\tinproc++\n\t}", "send fails mid-chunk"),
    M("c02-r5-store-after-signal", "C02", "C02.R5", SESS, "\t\tsession.unacked.Store(&values)\n\t\tsession.ackerEnded.Signal()", "\t\tsession.ackerEnded.Signal()\n\t\tsession.unacked.Store(&values)", "collector scheduled between signal and store"),
    B("c02-r5-benign-concat", "C02", SESS, "\tnewLeftovers = append(newLeftovers, fromPrevious...)\n\tnewLeftovers = append(newLeftovers, fromAckerChannel...)\n\tnewLeftovers = append(newLeftovers, fromAckerPending...)\n",
      "\tnewLeftovers = append(append(append(newLeftovers, fromPrevious...), fromAckerChannel...), fromAckerPending...)\n"),
    M("c02-r6-read-before-wait", "C02", "C02.R6", SESS, "\tif !session.ackerEnded.Wait(defs.IntermediateChannelTimeout) {\n\t\tsession.logger.Errorf(\"BUG: timeout waiting for acknowledger to hard stop. stack=%s\", util.Stack())\n\t}\n\tfromAckerChannel := util.CollectFromChannel(session.ackerChan)",
      "\tfromAckerChannel := util.CollectFromChannel(session.ackerChan)\n\tif !session.ackerEnded.Wait(defs.IntermediateChannelTimeout) {\n\t\tsession.logger.Errorf(\"BUG: timeout waiting for acknowledger to hard stop. stack=%s\", util.Stack())\n\t}", "acknowledger takes a chunk from the channel after it was drained"),
    M("c02-r7-return-before-leftovers", "C02", "C02.R7", CW, "\tclose(leftovers)\n\tclient.logger.Infof(\"save on shutdown, leftovers=%d\", len(leftovers))", "\tif len(leftovers) > 3 {\n\t\treturn\n\t}\n\tclose(leftovers)\n\tclient.logger.Infof(\"save on shutdown, leftovers=%d\", len(leftovers))", "stop with more than three unacknowledged chunks"),
    M("c02-r7-drop-leftovers-on-stop", "C02", "C02.R7", CW, "\t\treturn leftovers, noReconnect // ignore the connection being opened in background as this is full shutdown", "\t\treturn make(chan base.LogChunk), noReconnect", "stop requested while reconnecting with leftovers"),
    M("c02-r8-process-before-resend", "C02", "C02.R8", SESS, "\tif newLeftovers, retry := session.resendLeftovers(leftovers); newLeftovers != nil {\n\t\treturn newLeftovers, retry\n\t}\n\n\treturn session.processInput(maxDuration)",
      "\tif len(leftovers) == 0 {\n\t\treturn session.processInput(maxDuration)\n\t}\n\tif newLeftovers, retry := session.resendLeftovers(leftovers); newLeftovers != nil {\n\t\treturn newLeftovers, retry\n\t}\n\n\treturn session.processInput(maxDuration)", "none (benign-looking shortcut that skips close of the old leftovers channel)", expect="violation"),
    M("c02-r9-no-abort-on-ack-error", "C02", "C02.R9", SESS, "\t\t\tsession.abortConn(func() {\n\t\t\t\tclogger.Info(\"abort connection after error reading ACK to interrupt sending loop\")\n\t\t\t})\n\t\t\treturn", "\t\t\treturn", "ACK read error while the sender is blocked in a write"),
]

FILES = "util/files.go"

MUTANTS += [
    M("c02-r10-send-timeout-tolerated", "C02", "C02.R10", "output/fluentdforward/clientworker.go", "\tif err := writeAll(fconn.socket, chunk.Data); err != nil {\n\t\treturn fmt.Errorf(\"failed to send: %s, %w\", chunk.String(), err)", "\tif err := writeAll(fconn.socket, chunk.Data); err != nil && !os.IsTimeout(err) {\n\t\treturn fmt.Errorf(\"failed to send: %s, %w\", chunk.String(), err)", "a write timeout in the middle of a chunk: the partial chunk counts as sent and is queued for ACK", more=[("output/fluentdforward/clientworker.go", "import (\n", "import (\n\t\"os\"\n")]),
    M("c02-r10-deadline-error-shadowed", "C02", "C02.R10", "output/fluentdforward/clientworker.go", "\tif err := fconn.socket.SetReadDeadline(deadline); err != nil {\n\t\treturn \"\", fmt.Errorf(\"failed to set read timeout: %w\", err)\n\t}\n", "\tvar err error\n\tif !deadline.IsZero() {\n\t\terr := fconn.socket.SetReadDeadline(deadline)\n\t\t_ = err\n\t}\n\tif err != nil {\n\t\treturn \"\", fmt.Errorf(\"failed to set read timeout: %w\", err)\n\t}\n", "SetReadDeadline failing on a closed socket: the read then blocks without a deadline"),
    # ---------------- C03
    M("c03-r1-no-drop-count", "C03", "C03.R1", BUF, "\tdefault:\n\t\tbuf.chunkMan.OnChunkDropped(chunk)\n", "\tdefault:\n", "queue of 500000 chunks full"),
    M("c03-r1-double-input", "C03", "C03.R1", BUF, "\t\tbuf.chunkMan.OnChunkInput(false)\n", "\t\tbuf.chunkMan.OnChunkInput(false)\n\t\tbuf.chunkMan.OnChunkInput(false)\n", "spill path (memory window half full)"),
    B("c03-r1-benign-swap-log", "C03", BUF, "\t\tif chunk.Data != nil {\n\t\t\tbuf.logger.Warnf(\"queue overflow, drop loaded chunk: id=%s len=%d\", chunk.ID, len(chunk.Data))\n\t\t} else {\n\t\t\tbuf.logger.Warnf(\"queue overflow, drop unloaded chunk id=%s\", chunk.ID)\n\t\t}",
      "\t\tif chunk.Data == nil {\n\t\t\tbuf.logger.Warnf(\"queue overflow, drop unloaded chunk id=%s\", chunk.ID)\n\t\t} else {\n\t\t\tbuf.logger.Warnf(\"queue overflow, drop loaded chunk: id=%s len=%d\", chunk.ID, len(chunk.Data))\n\t\t}"),
    M("c03-r2-blocking-accept", "C03", "C03.R2", BUF, "\tselect {\n\tcase buf.inputChannel <- chunk:\n\t\tif chunk.Data != nil {\n\t\t\tbuf.metrics.queuedChunksTransient.Inc()", "\tif len(buf.inputChannel) < 10 {\n\t\tbuf.inputChannel <- chunk\n\t\treturn\n\t}\n\tselect {\n\tcase buf.inputChannel <- chunk:\n\t\tif chunk.Data != nil {\n\t\t\tbuf.metrics.queuedChunksTransient.Inc()", "two pipelines' workers racing on a nearly full queue"),
    M("c03-r3-revert-leftover-fix", "C03", "C03.R3", CMAN, "\tif !man.UnloadOrDropChunk(&chunk) {\n\t\t// the chunk could not be saved (space limit, I/O error or no queue dir): it's lost and counted as dropped\n\t\treturn\n\t}\n", "\tman.operator.UnloadChunk(&chunk)\n", "hand-back at shutdown with the space limit reached (original defect D13)"),
    B("c03-r3-benign-ignore-in-save", "C03", FEED, "\t\tif feeder.chunkMan.UnloadOrDropChunk(&lastInputChunk) {\n\t\t\tnumSaved++\n\t\t} else {\n\t\t\tnumDropped++\n\t\t}", "\t\tfeeder.chunkMan.UnloadOrDropChunk(&lastInputChunk)\n\t\tnumSaved++"),
    M("c03-r4-saved-before-write", "C03", "C03.R4", COP, "\tif werr := util.WriteFileAt(op.maybeDir, chunkRef.ID, chunkRef.Data, 0o644); werr != nil {", "\tchunkRef.Saved = true\n\tif werr := util.WriteFileAt(op.maybeDir, chunkRef.ID, chunkRef.Data, 0o644); werr != nil {", "write error at spill time"),
    M("c03-r4-no-quota", "C03", "C03.R4", COP, "\tif op.metrics.persistentChunkBytes.Get()+int64(len(chunkRef.Data)) > op.maxTotalBytes {", "\tif op.metrics.persistentChunkBytes.Get() > op.maxTotalBytes {", "a chunk larger than the remaining quota"),
    B("c03-r4-benign-len-once", "C03", COP, "\tif op.metrics.persistentChunkBytes.Get()+int64(len(chunkRef.Data)) > op.maxTotalBytes {", "\tdataLen := int64(len(chunkRef.Data))\n\tif op.metrics.persistentChunkBytes.Get()+dataLen > op.maxTotalBytes {"),
    M("c03-r5-forward-empty", "C03", "C03.R5", FEED, "\t\tfeeder.chunkMan.OnChunkCorrupted(chunk)\n\t\treturn true\n", "\t\tfeeder.chunkMan.OnChunkCorrupted(chunk)\n", "zero-length file in the queue dir"),
    M("c03-r5-false-after-corrupt", "C03", "C03.R5", FEED, "\t\tfeeder.chunkMan.OnChunkCorrupted(chunk)\n\t\treturn true\n", "\t\tfeeder.chunkMan.OnChunkCorrupted(chunk)\n\t\treturn false\n", "zero-length file followed by shutdown: removed chunk saved again"),
    M("c03-r5-lose-chunk-in-hand", "C03", "C03.R5", FEED, "\t\t\tlastInputChunk = chunk\n\t\t\tbreak\n", "\t\t\tbreak\n", "Destroy while the feeder blocks on a full window"),
    M("c03-r6-second-feeder", "C03", "C03.R6", BUF, "\tgo buf.feeder.Run()\n", "\tgo buf.feeder.Run()\n\tgo buf.feeder.Run()\n", "two feeders reorder chunks"),
    M("c03-r6-recv-in-accept", "C03", "C03.R6", BUF, "\tdefault:\n\t\tbuf.chunkMan.OnChunkDropped(chunk)\n", "\tdefault:\n\t\tselect {\n\t\tcase old := <-buf.inputChannel:\n\t\t\tbuf.chunkMan.OnChunkDropped(old)\n\t\tdefault:\n\t\t}\n\t\tbuf.chunkMan.OnChunkDropped(chunk)\n", "full queue: oldest chunk stolen from the feeder"),
    M("c03-r7-no-sort", "C03", "C03.R7", COP, "\tsort.Strings(fnames)\n\n\tchunkList", "\tchunkList", "restart with several queued files (directory order is arbitrary)", more=[(COP, "\t\"io\"\n\t\"os\"\n\t\"sort\"\n", "\t\"io\"\n\t\"os\"\n")]),
    M("c03-r7-accept-unmatched", "C03", "C03.R7", COP, "\t\t\top.logger.Warnf(\"skip unmatched chunk file id=%s\", fn)\n\t\t\tcontinue\n", "\t\t\top.logger.Warnf(\"skip unmatched chunk file id=%s\", fn)\n", "stale temp file or foreign file in the queue dir"),
    M("c03-r9-leftover-no-dec", "C03", "C03.R9", CMAN, "\tman.metrics.pendingChunks.Dec()\n\tman.metrics.leftoverChunksTotal.Inc()", "\tman.metrics.leftoverChunksTotal.Inc()", "stop with leftovers in sendAllAtEnd mode: WaitForZero never satisfied"),
    M("c03-r11-threshold-doubled", "C03", "C03.R11", BUF, "\tif buf.feeder.NumOutput() >= defs.BufferMaxNumChunksInMemory/2 {", "\tif buf.feeder.NumOutput() >= defs.BufferMaxNumChunksInMemory*2 {", "the window holds at most the limit: the spill never happens"),
    M("c03-r11-spill-only-when-queue-empty", "C03", "C03.R11", BUF, "\tif buf.feeder.NumOutput() >= defs.BufferMaxNumChunksInMemory/2 {", "\tif len(buf.inputChannel) == 0 && buf.feeder.NumOutput() >= defs.BufferMaxNumChunksInMemory/2 {", "backlog: the queue is non-empty exactly when the spill is needed"),
    B("c03-r11-benign-flipped-comparison", "C03", BUF, "\tif buf.feeder.NumOutput() >= defs.BufferMaxNumChunksInMemory/2 {", "\tif limit := defs.BufferMaxNumChunksInMemory / 2; limit <= buf.feeder.NumOutput() {"),
    M("c03-r12-consumed-also-dropped", "C19", "C03.R12", CMAN, "func (man *chunkManager) OnChunkConsumed(chunk base.LogChunk) {\n\tman.operator.RemoveChunk(chunk)\n", "func (man *chunkManager) OnChunkConsumed(chunk base.LogChunk) {\n\tman.operator.RemoveChunk(chunk)\n\tman.operator.OnChunkDropped(chunk)\n", "every acknowledged chunk that had been spilled to disk: persistent_chunks drifts negative"),
    M("c03-r12-remove-forgets-bytes", "C03", "C03.R12", COP, "\top.metrics.persistentChunks.Dec()\n\top.metrics.persistentChunkBytes.Sub(int64(len(chunk.Data)))\n}\n\nfunc (op *chunkOperator) OnChunkDropped", "\top.metrics.persistentChunks.Dec()\n}\n\nfunc (op *chunkOperator) OnChunkDropped", "a loaded saved chunk removed after ACK: byte gauge never goes down, quota reached with an empty directory"),
    B("c03-r12-benign-bytes-first", "C03", COP, "\top.metrics.persistentChunks.Dec()\n\top.metrics.persistentChunkBytes.Sub(int64(len(chunk.Data)))\n}\n\nfunc (op *chunkOperator) OnChunkDropped", "\top.metrics.persistentChunkBytes.Sub(int64(len(chunk.Data)))\n\top.metrics.persistentChunks.Dec()\n}\n\nfunc (op *chunkOperator) OnChunkDropped"),
    # ---------------- C04
    M("c04-r1-revert-short-write", "C04", "C04.R1", FILES, "\twerr := writeAllToFD(fd, data)\n", "\t_, werr := unix.Write(fd, data)\n", "short write (file size limit / disk full): original defect D10"),
    M("c04-r1-ignore-close", "C04", "C04.R1", FILES, "\tif cerr := unix.Close(fd); werr == nil {\n\t\twerr = cerr\n\t}\n", "\tunix.Close(fd)\n", "delayed write error reported at close (NFS, quota)"),
    M("c04-r1-no-advance", "C04", "C04.R1", FILES, "\t\tif n <= 0 {\n\t\t\treturn io.ErrShortWrite\n\t\t}\n\t\tdata = data[n:]\n", "\t\tif n <= 0 {\n\t\t\treturn io.ErrShortWrite\n\t\t}\n\t\tbreak\n", "short write"),
    M("c04-r2-revert-temp-name", "C04", "C04.R2", FILES, "\ttempname := filename + tempFileSuffix\n", "\ttempname := filename\n", "crash or write error mid-file: original defect D11"),
    M("c04-r2-rename-before-close", "C04", "C04.R2", FILES, "\twerr := writeAllToFD(fd, data)\n", "\tif rerr := unix.Renameat(dirFD, tempname, dirFD, filename); rerr != nil {\n\t\tunix.Close(fd)\n\t\treturn rerr\n\t}\n\twerr := writeAllToFD(fd, data)\n", "crash while writing"),
    M("c04-r2-temp-suffix-matches", "C04", "C04.R2", FILES, "const tempFileSuffix = \".tmp\"", "const tempFileSuffix = \".tmp.ff\"", "crash mid-write, fluentd output"),
    B("c04-r2-benign-rename-suffix", "C04", FILES, "const tempFileSuffix = \".tmp\"", "const tempFileSuffix = \".partial\""),
    M("c04-r4-revert-short-read", "C04", "C04.R4", FILES, "\tfor off := 0; off < len(buf); {\n\t\tn, rerr := unix.Read(fd, buf[off:])\n\t\tif rerr != nil {\n\t\t\tunix.Close(fd)\n\t\t\treturn nil, rerr\n\t\t}\n\t\tif n <= 0 {\n\t\t\tunix.Close(fd)\n\t\t\treturn nil, io.ErrUnexpectedEOF\n\t\t}\n\t\toff += n\n\t}\n",
      "\tn, rerr := unix.Read(fd, buf)\n\tif rerr != nil {\n\t\tunix.Close(fd)\n\t\treturn nil, rerr\n\t}\n\tif n != len(buf) {\n\t\tbuf = buf[:n]\n\t}\n", "short read: original defect D12"),
]

CIB = "orchestrate/obykeyset/channelinputbuffer.go"
IDGEN = "output/shared/chunkidgen.go"

MUTANTS += [
    M("c04-r5-eexist-counts-as-saved", "C04", "C04.R5", COP, "\tif werr := util.WriteFileAt(op.maybeDir, chunkRef.ID, chunkRef.Data, 0o644); werr != nil {", "\tif werr := util.WriteFileAt(op.maybeDir, chunkRef.ID, chunkRef.Data, 0o644); werr != nil && !os.IsExist(werr) {", "a stale file of the same name (or EEXIST from an odd filesystem): the chunk is marked saved and its data released although nothing was written"),
    M("c04-r5-write-error-shadowed", "C04", "C04.R5", FILES, "\twerr := writeAllToFD(fd, data)\n", "\tvar werr error\n\tif len(data) > 0 {\n\t\twerr := writeAllToFD(fd, data)\n\t\t_ = werr\n\t}\n", "any write error (disk full, EIO): the partial temp file is renamed to the chunk id"),
    B("c04-r5-benign-inline-write-loop", "C04", FILES, "\twerr := writeAllToFD(fd, data)\n", "\tvar werr error\n\tfor rest := data; len(rest) > 0; {\n\t\tvar n int\n\t\tn, werr = unix.Write(fd, rest)\n\t\tif werr != nil {\n\t\t\tbreak\n\t\t}\n\t\tif n <= 0 {\n\t\t\twerr = io.ErrShortWrite\n\t\t\tbreak\n\t\t}\n\t\trest = rest[n:]\n\t}\n"),
    # ---------------- C05
    M("c05-r1-two-workers", "C05", "C05.R1", PIPE, "\t\tprocWorker.Start()\n", "\t\tprocWorker.Start()\n\t\tprocWorker.Start()\n", "two goroutines consume one pipeline channel: records reordered under load"),
    M("c05-r2-no-copy", "C05", "C05.R2", CIB, "\treusableLogBuffer := bsupport.CopyLogBuffer(pendingLogs)\n", "\treusableLogBuffer := pendingLogs\n\t_ = bsupport.CopyLogBuffer\n", "next records appended while the worker still reads the flushed slice"),
    B("c05-r2-benign-truncate-first", "C05", CIB, "\treusableLogBuffer := bsupport.CopyLogBuffer(pendingLogs)\n\tcache.PendingLogs = pendingLogs[:0]\n", "\tcache.PendingLogs = pendingLogs[:0]\n\treusableLogBuffer := bsupport.CopyLogBuffer(pendingLogs)\n"),
    M("c05-r2-copy-after-truncate", "C05", "C05.R2", CIB, "\tpendingLogs := cache.PendingLogs\n\treusableLogBuffer := bsupport.CopyLogBuffer(pendingLogs)\n\tcache.PendingLogs = pendingLogs[:0]\n", "\tpendingLogs := cache.PendingLogs\n\tcache.PendingLogs = pendingLogs[:0]\n\treusableLogBuffer := bsupport.CopyLogBuffer(cache.PendingLogs)\n", "every flush sends an empty batch: records lost"),
    M("c05-r3-no-sort", "C05", "C05.R3", SESS, "\tsort.Slice(chunks, func(i, j int) bool { return chunks[i].ID < chunks[j].ID })\n", "", "session ends with chunks in the pending map (map iteration order) and in the channel", more=[(SESS, "\t\"os/signal\"\n\t\"sort\"\n", "\t\"os/signal\"\n")]),
    B("c05-r3-benign-slices-sort", "C05", SESS, "\tsort.Slice(chunks, func(i, j int) bool { return chunks[i].ID < chunks[j].ID })\n", "\tslices.SortFunc(chunks, func(a, b base.LogChunk) int { return strings.Compare(a.ID, b.ID) })\n", more=[(SESS, "\t\"os/signal\"\n\t\"sort\"\n", "\t\"os/signal\"\n\t\"slices\"\n\t\"strings\"\n")]),
    M("c05-r3-partial-dedup", "C05", "C05.R3", SESS, "\t\tif c.ID == lastChunkID {\n", "\t\tif c.ID == lastChunkID && c.Saved {\n", "a transient chunk both unsent in the previous leftovers and pending"),
    M("c05-r6-unlock-before-read", "C05", "C05.R6", IDGEN, "\tnextSequence := generator.sequence\n\tgenerator.Unlock()\n", "\tgenerator.Unlock()\n\tnextSequence := generator.sequence\n", "two pipelines' chunk makers sharing a generator in the same nanosecond"),
    M("c05-r6-variable-width-id", "C05", "C05.R6", IDGEN, "\"%019d-%08d\"", "\"%d-%d\"", "more than 10 chunks within one timestamp: string sort differs from creation order"),
    M("c05-r6-foreign-id", "C05", "C05.R6", "output/shared/messagepacker.go", "\tpacker.currentChunk = nil\n\n\treturn result", "\tpacker.currentChunk = nil\n\tresult.ID = \"x\" + result.ID\n\n\treturn result", "ids no longer time ordered"),
]

SP = "input/syslogparser/syslogparser.go"
COMP = "input/sysloginput/compositeparser.go"

MUTANTS += [
    # ---------------- C09
    M("c09-r1-drop-without-count", "C09", "C09.R1", SP, "\t\tparser.onMalformed(record, \"unfinished syslog\", input)\n\t\treturn nil", "\t\treturn nil", "a line of 32+ bytes starting with '<' and containing no space"),
    M("c09-r1-pass-counted-early", "C09", "C09.R1", SP, "\trecord.Timestamp = timestamp // actual timestamp is to be parsed and filled by transform.parseTimeTransform\n", "\trecord.Timestamp = timestamp // actual timestamp is to be parsed and filled by transform.parseTimeTransform\n\tparser.inputCounter.CountRecordPass(record)\n", "any malformed line: counted as passed and dropped", more=[(SP, "\tparser.inputCounter.CountRecordPass(record)\n\n\treturn record", "\treturn record")]),
    M("c09-r2-revert-clean-on-cut", "C09", "C09.R2", SP, "\t\t// cut and clean up the end, as a multi-byte UTF-8 sequence may be cut in the middle\n\t\tremaining = util.StringFromBytes(\n\t\t\tutil.CleanUTF8(util.BytesFromString(remaining[:defs.InputLogMaxMessageBytes])),\n\t\t)\n\t} else if record.RawLength >= defs.InputLogMaxRecordBytes {",
      "\t\tremaining = remaining[:defs.InputLogMaxMessageBytes]\n\t}\n\tif record.RawLength >= defs.InputLogMaxRecordBytes {", "message of 1 MiB + k bytes (k < 256 - header) with a multi-byte character across the limit: original defect D22"),
    M("c09-r2-overflow-not-counted", "C09", "C09.R2", SP, "\t\tparser.onOverflow(input)\n", "", "over-long message"),
    B("c09-r2-benign-max-local", "C09", SP, "\tif len(remaining) > defs.InputLogMaxMessageBytes {\n\t\tparser.onOverflow(input)\n\t\t// cut and clean up the end, as a multi-byte UTF-8 sequence may be cut in the middle\n\t\tremaining = util.StringFromBytes(\n\t\t\tutil.CleanUTF8(util.BytesFromString(remaining[:defs.InputLogMaxMessageBytes])),",
      "\tmaxLen := defs.InputLogMaxMessageBytes\n\tif len(remaining) > maxLen {\n\t\tparser.onOverflow(input)\n\t\t// cut and clean up the end, as a multi-byte UTF-8 sequence may be cut in the middle\n\t\tremaining = util.StringFromBytes(\n\t\t\tutil.CleanUTF8(util.BytesFromString(remaining[:maxLen])),"),
    M("c09-r4-no-release-on-drop", "C09", "C09.R4", COP.replace("buffer/hybridbuffer/chunkoperator.go", COMP), "\t\tcp.deallocator.Release(record)\n", "", "extraction transform drops a record: pooled record and backing buffer leak"),
    # ---------------- C19
    M("c19-r2-pass-counted-before-filter", "C19", "C19.R2", LPW, "\t\ticounter := worker.procCounter.SelectMetricKeySet(record)\n", "\t\ticounter := worker.procCounter.SelectMetricKeySet(record)\n\t\ticounter.CountRecordPass(record)\n", "any record dropped by a transform: counted passed and dropped", more=[(LPW, "\t\t}\n\t\ticounter.CountRecordPass(record)\n", "\t\t}\n")]),
    M("c19-r2-flush-chunk-not-counted", "C19", "C19.R2", LPW, "\t\tmaybeChunk := output.FlushBuffer()\n\t\tif maybeChunk != nil {\n\t\t\tworker.procCounter.CountChunk(i, maybeChunk)\n", "\t\tmaybeChunk := output.FlushBuffer()\n\t\tif maybeChunk != nil {\n\t\t\t_ = i\n", "chunks emitted by the timed flush are missing from chunks_total"),
    M("c19-r4-forwarded-before-queue", "C19", "C19.R4", SESS, "\t// pass forwarded chunk to acknowledger\n\tselect {\n\tcase session.ackerChan <- chunk:\n\t\tsession.metrics.OnForwarded(chunk)\n", "\t// pass forwarded chunk to acknowledger\n\tsession.metrics.OnForwarded(chunk)\n\tselect {\n\tcase session.ackerChan <- chunk:\n", "stop request between send and queueing: pendingAck gauge never returns to zero"),
    M("c19-r4-session-ended-operand", "C19", "C19.R4", SESS, "\tsession.metrics.OnSessionEnded(len(fromPrevious), len(fromAckerChannel)+len(fromAckerPending), len(newLeftovers))", "\tsession.metrics.OnSessionEnded(len(fromPrevious), len(fromAckerChannel), len(newLeftovers))", "session ends with chunks in the pending map"),
    M("c19-r5-no-update-on-stop", "C19", "C19.R5", LPW, "func (worker *LogProcessingWorker) onStop() {\n\tworker.flushChunk()\n\tworker.procCounter.UpdateMetrics()\n", "func (worker *LogProcessingWorker) onStop() {\n\tworker.flushChunk()\n", "records processed in the last second before shutdown are missing from the counters"),
    M("c19-r6-select-after-transforms", "C19", "C19.R6", LPW, "\t\ticounter := worker.procCounter.SelectMetricKeySet(record)\n\t\tif RunTransforms(record, worker.transformList) == base.DROP {", "\t\tresult := RunTransforms(record, worker.transformList)\n\t\ticounter := worker.procCounter.SelectMetricKeySet(record)\n\t\tif result == base.DROP {", "two consecutive records with different metric keys: transform counters attributed to the previous record's labels"),
]

REL = "run/reloadable.go"
RELOADER = "run/reloader.go"

MUTANTS += [
    M("c16-r6-orchestration-keys-never-assigned", "C16", "C16.R6", "run/config.go", "\torcKeys = keys\n\tstats.OrchestrationKeys = keys\n", "\tstats.OrchestrationKeys = keys\n", "a field listed in both orchestration keys and metricKeys: accepted, duplicate label panic at the first pipeline"),
    B("c16-r6-benign-direct-keys", "C16", "run/config.go", "\tif err := checkMetricKeys(conf, schema, orcKeys); err != nil {", "\tif err := checkMetricKeys(conf, schema, keys); err != nil {", more=[("run/config.go", "\tvar orcKeys []string\n", ""), ("run/config.go", "\torcKeys = keys\n", "")]),
    M("c16-r7-single-input-errors-ignored", "C16", "C16.R7", "run/config.go", "\tif err = bsupport.VerifyInputConfigs(conf.Inputs, schema, \"inputs\"); err != nil {", "\tif err = bsupport.VerifyInputConfigs(conf.Inputs, schema, \"inputs\"); err != nil && len(conf.Inputs) > 1 {", "a configuration with exactly one (invalid) input: accepted, fails at launch"),
    M("c16-r7-transform-error-shadowed", "C16", "C16.R7", "transform/tif/tif.go", "\tif err := c.Match.VerifyConfig(schema); err != nil {\n\t\treturn fmt.Errorf(\".match: %w\", err)\n\t}\n", "\tvar err error\n\tif len(c.Match) > 0 {\n\t\terr := c.Match.VerifyConfig(schema)\n\t\t_ = err\n\t}\n\tif err != nil {\n\t\treturn fmt.Errorf(\".match: %w\", err)\n\t}\n", "an `if` transform with an invalid matcher: accepted, panics when the pipeline is built"),
    # ---------------- C17
    M("c17-r1-revert-newsink-lock", "C17", "C17.R1", REL, "\tlockT := orc.downstreamMutex.RLock() // only read-lock since we assume clientNumber is unique and nobody else is accessing it\n\tdefer orc.downstreamMutex.RUnlock(lockT)\n\n\t// the downstream orchestrator must be accessed within the lock, or the new sink could belong to an orchestrator\n\t// which has been shut down by reloading in the meantime\n\tnewDownstream := orc.downstream.NewSink(clientAddress, clientNumber)\n",
      "\tnewDownstream := orc.downstream.NewSink(clientAddress, clientNumber)\n\n\tlockT := orc.downstreamMutex.RLock() // only read-lock since we assume clientNumber is unique and nobody else is accessing it\n\tdefer orc.downstreamMutex.RUnlock(lockT)\n", "SIGHUP between creating the sink and registering it: original defect D19"),
    M("c17-r1-revert-shutdown-lock", "C17", "C17.R1", REL, "\t// wait for any ongoing reloading to finish, and block new ones while shutting down\n\tlockT := orc.downstreamMutex.RLock()\n\tdefer orc.downstreamMutex.RUnlock(lockT)\n\n\torc.downstream.Shutdown()", "\torc.downstream.Shutdown()", "SIGTERM during a SIGHUP reload: original defect D20"),
    M("c17-r1-sink-close-unlocked", "C17", "C17.R1", REL, "func (sink *ReloadableSink) Close() {\n\tlockT := sink.downstreamMutex.RLock()\n\tdefer sink.downstreamMutex.RUnlock(lockT)\n\n", "func (sink *ReloadableSink) Close() {\n", "connection close during reload: closes the old sink, clears the slot the reload just filled"),
    B("c17-r1-benign-explicit-unlock", "C17", REL, "func (sink *ReloadableSink) Tick() {\n\tlockT := sink.downstreamMutex.RLock()\n\tdefer sink.downstreamMutex.RUnlock(lockT)\n\n\t(*sink.downstreamPtr).Tick()\n", "func (sink *ReloadableSink) Tick() {\n\tlockT := sink.downstreamMutex.RLock()\n\t(*sink.downstreamPtr).Tick()\n\tsink.downstreamMutex.RUnlock(lockT)\n"),
    M("c17-r2-shutdown-before-sink-close", "C17", "C17.R2", REL, "\tfor _, sink := range orc.downstreamSinks {\n\t\tif sink == nil {\n\t\t\tcontinue\n\t\t}\n\t\tsink.Close()\n\t\t// keep closed sinks in place so we know which ones to re-create below\n\t}\n\torc.downstream.Shutdown()\n",
      "\torc.downstream.Shutdown()\n\tfor _, sink := range orc.downstreamSinks {\n\t\tif sink == nil {\n\t\t\tcontinue\n\t\t}\n\t\tsink.Close()\n\t\t// keep closed sinks in place so we know which ones to re-create below\n\t}\n", "reload while connections hold buffered records: flushed into closed pipeline channels"),
    M("c17-r2-failure-has-side-effect", "C17", "C17.R2", REL, "\t\treloadFailureCounter.Inc()\n\t\treturn\n", "\t\treloadFailureCounter.Inc()\n\t\torc.downstream.Shutdown()\n\t\treturn\n", "reload with an invalid configuration file"),
    M("c17-r3-loader-swapped-early", "C17", "C17.R3", RELOADER, "\tif err := checkConfigCompatibility(\n", "\treloader.Loader = newLoader\n\tif err := checkConfigCompatibility(\n", "reload with an incompatible configuration: later reloads compare against the rejected one"),
    M("c17-r3-complete-despite-incompatible", "C17", "C17.R3", RELOADER, "\t\tnewLoader.Config, newLoader.PipelineArgs.Schema, newLoader.ConfigStats); err != nil {\n\t\treturn nil, err\n\t}", "\t\tnewLoader.Config, newLoader.PipelineArgs.Schema, newLoader.ConfigStats); err != nil {\n\t\treloader.logger.Warn(err)\n\t}", "reload with changed schema positions"),
    M("c17-r4-revert-close-order", "C17", "C17.R4", TCP, "\t\t\t// the connection is closed by connAborter at the end, after the sink\n", "\t\t\tconnAborter.Signal()\n", "client disconnects and reconnects while the old sink is still flushing: original defect D21 (also a double Signal)", more=[(TCP, "\tdefer connAborter.Signal()\n\n", "\n")]),
    M("c17-r4-close-conn-on-peer-eof", "C17", "C17.R4", TCP, "\t\t\t// the connection is closed by connAborter at the end, after the sink\n", "\t\t\tconn.Close() //nolint:errcheck\n", "a new connection accepted between the peer-closed connection releasing its socket and its sink being closed: same client number, slot cleared under the new connection"),
    M("c17-r5-foreign-slot-write", "C17", "C17.R5", REL, "\torc.downstream.Shutdown()\n}\n", "\torc.downstream.Shutdown()\n\torc.downstreamSinks[0] = nil\n}\n", "a slot cleared behind the back of its connection"),
]

FFCW = "output/fluentdforward/clientworker.go"

MUTANTS += [
    # ---------------- C18
    M("c18-r1-plain-send-in-flush", "C18", "C18.R1", CIB, "\tselect {\n\tcase cache.Channel <- reusableLogBuffer:\n\t\t// TODO: update metrics\n\tcase <-time.After(defs.IntermediateChannelTimeout):\n\t\tparentLogger.Errorf(\"BUG: timeout flushing: %d records for %s. stack=%s\", len(reusableLogBuffer), loggingKey, util.Stack())\n\t}",
      "\tcache.Channel <- reusableLogBuffer\n\t_, _, _ = defs.IntermediateChannelTimeout, util.Stack, parentLogger", "a pipeline whose worker is blocked (stalled output): the connection goroutine and with it shutdown hang"),
    M("c18-r1-no-abort-case-in-feeder", ["C18"], "C18.R1", FEED, "\tcase <-feeder.inputClosed.Channel():\n\t\treturn false\n\t}", "\t}", "Destroy while the output window is full and the consumer stalled", more=[(FEED, "\tselect {\n\tcase feeder.outputChannel <- chunk: // wait forever here, this ultimately causes chunks to bufferer to be unloaded\n\t\treturn true\n", "\tselect {\n\tcase feeder.outputChannel <- chunk: // wait forever here, this ultimately causes chunks to bufferer to be unloaded\n\t\treturn !feeder.inputClosed.Peek()\n")]),
    B("c18-r1-benign-timer", "C18", CIB, "\tcase <-time.After(defs.IntermediateChannelTimeout):\n", "\tcase <-timer.C:\n", more=[(CIB, "\t// Send with timeout; There is enough buffering to make on-demand timer allocations trivial.\n", "\ttimer := time.NewTimer(defs.IntermediateChannelTimeout)\n\tdefer timer.Stop()\n")]),
    M("c18-r2-no-abort-on-stop", "C18", "C18.R2", CW, "\tclient.inputClosed.Next(func() {\n\t\tsess := client.activeSession.Load()\n\t\tif sess != nil {\n\t\t\tsess.Abort(func() {\n\t\t\t\tclient.logger.Info(\"abort ongoing connection due to stop request\")\n\t\t\t})\n\t\t}\n\t})\n", "", "stop while a write to a stalled upstream is blocked for its full deadline (minutes)"),
    M("c18-r3-zero-ack-deadline", "C18", "C18.R3", SESS, "session.conn.ReadChunkAck(time.Now().Add(defs.ForwarderBatchAckTimeout))", "session.conn.ReadChunkAck(time.Time{})", "upstream accepts but never answers: the acknowledger never times out"),
    M("c18-r3-no-write-deadline", "C18", "C18.R", FFCW, "\tif err := fconn.socket.SetWriteDeadline(deadline); err != nil {\n\t\treturn fmt.Errorf(\"failed to set send timeout: %s, %w\", chunk.String(), err)\n\t}\n\n\tif err := writeAll(fconn.socket, chunk.Data); err != nil {", "\t_ = deadline\n\tif err := writeAll(fconn.socket, chunk.Data); err != nil {", "upstream blocked mid-write"),
    M("c18-r4-wait-before-close", "C18", "C18.R4", BUF, "\tclose(buf.inputChannel)\n\tbuf.inputClosed.Signal()\n\n\tbuf.logger.Infof(\"waiting for feeder: in=%d out=%d\", len(buf.inputChannel), buf.feeder.NumOutput())\n\tif !buf.feeder.Stopped().Wait(runTimeout) {\n\t\tbuf.logger.Errorf(\"BUG: couldn't stop feeder in time. stack=%s\", util.Stack())\n\t}",
      "\tbuf.logger.Infof(\"waiting for feeder: in=%d out=%d\", len(buf.inputChannel), buf.feeder.NumOutput())\n\tif !buf.feeder.Stopped().Wait(runTimeout) {\n\t\tbuf.logger.Errorf(\"BUG: couldn't stop feeder in time. stack=%s\", util.Stack())\n\t}\n\tclose(buf.inputChannel)\n\tbuf.inputClosed.Signal()", "every shutdown waits the full timeout and then leaves chunks unsaved"),
    M("c18-r6-double-signal", "C18", "C18.R6", FEED, "func (feeder *outputFeeder) Run() {\n", "func (feeder *outputFeeder) Run() {\n\tdefer feeder.stopped.Signal()\n", "every shutdown: close of closed channel panics after the chunks were saved"),
]

TEXTRACT = "transform/textract/textract.go"
TSPECIAL = "transform/textractspecial/textractspecial.go"
FFCONF = "output/fluentdforward/config.go"
DDCONF = "output/datadog/config.go"
RUNCONF = "run/config.go"
STPL = "util/stringtemplate/stringtemplate.go"
TIF = "transform/tif/tif.go"

MUTANTS += [
    # ---------------- C16
    M("c16-r1-revert-extract-capture-check", "C16", "C16.R1", TEXTRACT, "\t\tif _, err := schema.CreateFieldLocator(name); err != nil {", "\t\tif _, err := schema.CreateFieldLocator(c.Key); err != nil {", "extract pattern with a named capture that is not a schema field: original defect D14"),
    M("c16-r1-revert-extractspecial-verify", "C16", "C16.R1", TSPECIAL, "\tif _, err := newStringExtractorSimple(c.getPosition(), c.Pattern, c.MaxLength); err != nil {", "\tif _, err := splitPattern(c.Pattern); err != nil {", "pattern ':[]': original defect D16"),
    M("c16-r1-revert-envfields-check", "C16", "C16.R1", FFCONF, "\tfor _, field := range cfg.Serialization.EnvironmentFields {\n\t\tif _, err := schema.CreateFieldLocator(field); err != nil {\n\t\t\treturn fmt.Errorf(\".serialization.environmentFields: Field is invalid: %w\", err)\n\t\t}\n\t}\n\n", "", "unknown environment field: original defect D17"),
    M("c16-r1-revert-datadog-url-check", "C16", "C16.R1", DDCONF, "\tif _, err := http.NewRequest(http.MethodPost, cfg.Upstream.Address, nil); err != nil {\n\t\treturn fmt.Errorf(\"invalid datadog api address: %w\", err)\n\t}\n", "\t_, _ = http.MethodPost, fmt.Sprint\n", "malformed datadog address: original defect D26"),
    M("c16-r1-verify-wrong-key", "C16", "C16.R1", TSPECIAL, "\tif _, err := schema.CreateFieldLocator(c.DestKey); err != nil {", "\tif _, err := schema.CreateFieldLocator(c.Key); err != nil {", "extractHead with an unknown destKey"),
    M("c16-r1-drop-nested-verify", "C16", "C16.R", TIF, "\treturn bsupport.VerifyTransformConfigs(c.Then, schema, \".then\")", "\treturn nil", "an invalid step nested inside 'if … then'"),
    M("c16-r1-enum-accepts-unhandled", "C16", "C16.R1", FFCONF, "\tcase forwardprotocol.ModeCompressedPackedForward:\n\tdefault:\n\t\treturn fmt.Errorf(\".messageMode: '%s' is not a valid mode\", cfg.MessageMode)", "\tcase forwardprotocol.ModeCompressedPackedForward:\n\tcase \"Json\":\n\tdefault:\n\t\treturn fmt.Errorf(\".messageMode: '%s' is not a valid mode\", cfg.MessageMode)", "messageMode: Json accepted, Fatalf in NewChunkMaker"),
    B("c16-r1-benign-reorder-checks", "C16", "transform/ttruncate/ttruncate.go", "\tif c.MaxLength <= 0 {\n\t\treturn fmt.Errorf(\".maxLength must be larger than zero: %d\", c.MaxLength)\n\t}\n\tif len(c.Suffix) == 0 {\n\t\treturn fmt.Errorf(\".suffix is unspecified\")\n\t}", "\tif len(c.Suffix) == 0 {\n\t\treturn fmt.Errorf(\".suffix is unspecified\")\n\t}\n\tif c.MaxLength <= 0 {\n\t\treturn fmt.Errorf(\".maxLength must be larger than zero: %d\", c.MaxLength)\n\t}"),
    M("c16-r2-revert-template-panic", "C16", "C16.R2", STPL, "\t\tparamStart, err = strconv.Atoi(paramStartStr)\n\t\tif err != nil {\n\t\t\treturn nil, err\n\t\t}", "\t\tparamStart, err = strconv.Atoi(paramStartStr)\n\t\tif err != nil {\n\t\t\tpanic(err)\n\t\t}", "template slice bound out of int range: original defect D15"),
    M("c16-r3-revert-orchestration-nil-check", "C16", "C16.R3", RUNCONF, "\tif conf.Orchestration.Value == nil {\n\t\treturn conf, schema, stats, fmt.Errorf(\"orchestration is unspecified\")\n\t}\n", "", "configuration file without an orchestration section: original defect D18"),
    M("c16-r4-skip-transformations", "C16", "C16.R4", RUNCONF, "\tif err := bsupport.VerifyTransformConfigs(conf.Transformations, schema, \"transforms\"); err != nil {\n\t\treturn conf, schema, stats, err\n\t}\n", "\t_ = bsupport.VerifyTransformConfigs\n", "any invalid top-level transform"),
]

MPACK = "output/shared/messagepacker.go"
FFCHUNK = "output/fluentdforward/chunk.go"
FFENC = "output/fluentdforward/chunkencoder.go"

MUTANTS += [
    # ---------------- C11
    M("c11-r1-write-into-old-chunk", "C11", "C11.R1", MPACK, "\t\tif !packer.currentChunk.CanAppendData(len(stream)) {\n\t\t\tpreviousChunk = packer.FlushBuffer()\n\t\t}", "\t\tif !packer.currentChunk.CanAppendData(len(stream)) {\n\t\t\tpacker.currentChunk.Write(stream) //nolint:errcheck\n\t\t\tpreviousChunk = packer.FlushBuffer()\n\t\t}", "a record arriving exactly when the chunk is full: written twice (old and new chunk)"),
    M("c11-r1-no-new-chunk-after-flush-error", "C11", "C11.R1", MPACK, "\tif packer.currentChunk == nil {\n\t\tpacker.currentChunk = packer.chunkFactory.NewChunk()\n\t}\n", "\tif packer.currentChunk == nil && previousChunk == nil {\n\t\tpacker.currentChunk = packer.chunkFactory.NewChunk()\n\t}\n", "first record after a roll-over: nil chunk dereference"),
    M("c11-r2-keep-current-after-flush", "C11", "C11.R2", MPACK, "\tpacker.currentChunk = nil\n\n\treturn result", "\treturn result", "second flush re-emits the same chunk with more records"),
    B("c11-r1-benign-len-local", "C11", MPACK, "\tif packer.currentChunk != nil {\n\t\tif !packer.currentChunk.CanAppendData(len(stream)) {", "\tif packer.currentChunk != nil {\n\t\tif n := len(stream); !packer.currentChunk.CanAppendData(n) {"),
    M("c11-r3-count-failed-write", "C11", "C11.R3", FFCHUNK, "\tif err == nil {\n\t\tchunk.numRecords++\n\t\tchunk.numBytes += len(data)\n\t}", "\tchunk.numRecords++\n\tif err == nil {\n\t\tchunk.numBytes += len(data)\n\t}", "a compressor write error: the chunk announces more records than it contains"),
    M("c11-r4-alias-shared-buffer", "C11", "C11.R4", FFCHUNK, "\t\tchunkData = util.CopySlice(chunk.writeBuffer.Bytes())", "\t\tchunkData = chunk.writeBuffer.Bytes()\n\t\t_ = util.CopySlice[byte]", "encoder-less mode: the next chunk overwrites the previous chunk's bytes while it is queued"),
    M("c11-r4-read-before-close", "C11", "C11.R4", FFCHUNK, "\tif chunk.compressor != nil {\n\t\tif err := chunk.compressor.Close(); err != nil {\n\t\t\treturn nil, err\n\t\t}\n\t}\n\n\tdefer chunk.writeBuffer.Reset()\n", "\tdefer chunk.writeBuffer.Reset()\n", "compressed mode: gzip trailer missing", more=[(FFCHUNK, "\treturn &base.LogChunk{\n\t\tID:    chunk.id,\n\t\tData:  chunkData,", "\tif chunk.compressor != nil {\n\t\tif err := chunk.compressor.Close(); err != nil {\n\t\t\treturn nil, err\n\t\t}\n\t}\n\treturn &base.LogChunk{\n\t\tID:    chunk.id,\n\t\tData:  chunkData,")]),
    M("c11-r5-size-from-bytes", "C11", "C11.R5", FFENC, "\t\tSize:       params.NumRecords,", "\t\tSize:       params.NumBytes,", "any chunk: option size disagrees with the entries (upstream may reject or mis-count)"),
    M("c11-r6-suffix-mismatch", "C11", "C11.R6", FFCONF, "\tchunkFactory := shared.NewChunkFactory(chunkIDSuffix, msgBufCapacity, newChunkFunc)", "\tchunkFactory := shared.NewChunkFactory(\".fwd\", msgBufCapacity, newChunkFunc)", "restart with spilled chunks: none is recovered"),
]

RTF = "base/bsupport/logtransforms.go"
TSWITCH = "transform/tswitch/tswitch.go"
TTRUNC = "transform/ttruncate/ttruncate.go"
TDROP = "transform/tdrop/tdrop.go"
ALLOC = "base/logallocator.go"
RFC = "transform/tparsetime/rfc3339.go"
LCM = "util/localcachedmap/localcachedmap.go"
LPCS = "base/logprocesscounterset.go"
RUNESC = "rewrite/runescape/runescape.go"

MUTANTS += [
    # ---------------- C15
    M("c15-r1-ignore-drop", "C15", "C15.R1", RTF, "\t\tif transformFunc(record) == base.DROP {\n\t\t\treturn base.DROP\n\t\t}", "\t\tif transformFunc(record) == base.DROP {\n\t\t\tcontinue\n\t\t}", "a drop step followed by any other step: dropped records are forwarded"),
    M("c15-r2-if-swallows-drop", "C15", "C15.R2", TIF, "\t\treturn bsupport.RunTransforms(record, tf.thenSteps)", "\t\tbsupport.RunTransforms(record, tf.thenSteps)\n\t\treturn base.PASS", "a drop nested inside if/then"),
    B("c15-r2-benign-early-return", "C15", TIF, "\tif tf.matcher.Match(record) {\n\t\treturn bsupport.RunTransforms(record, tf.thenSteps)\n\t}\n\treturn base.PASS", "\tif !tf.matcher.Match(record) {\n\t\treturn base.PASS\n\t}\n\treturn bsupport.RunTransforms(record, tf.thenSteps)"),
    M("c15-r2-switch-falls-through", "C15", "C15.R2", TSWITCH, "\t\tif matched {\n\t\t\treturn status\n\t\t}", "\t\tif matched && status == base.DROP {\n\t\t\treturn status\n\t\t}", "two cases matching the same record: both run"),
    M("c15-r3-cut-without-clean", "C15", "C15.R3", TTRUNC, "\t\tvalueTrimmed := util.CleanUTF8(valueB[:tf.maxLength])", "\t\tvalueTrimmed := valueB[:tf.maxLength]\n\t\t_ = util.CleanUTF8", "multi-byte character across maxLength"),
    M("c15-r3-guard-without-suffix", "C15", "C15.R3", TTRUNC, "\tif len(value) > tf.maxLength+len(tf.suffix) {", "\tif len(value) > tf.maxLength {", "value length between maxLength and maxLength+len(suffix): OverwriteNTruncate overruns"),
    M("c15-r4-matched-counted-twice", "C15", "C15.R4", TDROP, "\ttf.totalMatched++\n\ttf.countRetained(record.RawLength)", "\ttf.totalMatched++\n\ttf.totalMatched++\n\ttf.countRetained(record.RawLength)", "sampling drifts away from the configured percentage"),
    M("c15-r4-retained-at-100", "C15", "C15.R4", TDROP, "\tif tf.targetRate == 100 {\n\t\ttf.countDropped(record.RawLength)\n\t\treturn base.DROP\n\t}\n", "\tif tf.targetRate == 100 && tf.totalMatched >= 0 {\n\t\ttf.countDropped(record.RawLength)\n\t\treturn base.DROP\n\t}\n", "none in practice (guard weakened path-insensitively)", expect="violation"),
    M("c11-r9-buffer-replaced-when-large", "C11", "C11.R9", FFENC, "\tdefer enc.msgpackEncoderBuffer.Reset()\n", "\tdefer func() {\n\t\tif enc.msgpackEncoderBuffer.Cap() > 4<<20 {\n\t\t\tenc.msgpackEncoderBuffer = &bytes.Buffer{}\n\t\t} else {\n\t\t\tenc.msgpackEncoderBuffer.Reset()\n\t\t}\n\t}()\n", "a chunk whose encoded size exceeds 4 MiB: every later chunk of the pipeline loses its envelope (the encoder still writes into the old buffer)"),
    M("c06-r5-hash-of-sanitised-name", "C06", "C06.R5", "buffer/hybridbuffer/queuedirs.go", "\t\thash := util.MD5ToHexdigest(bufferID)\n", "\t\thash := util.MD5ToHexdigest(dirname)\n", "two ids differing only by '/' vs '_': one queue directory, one .id file, each other's chunks"),
    # ---------------- C12
    B("c12-r1-benign-timestamp-not-reset", "C12", ALLOC, "\trecord.Timestamp = time.Time{}\n", ""),  # every producer assigns Timestamp before the record escapes
    M("c12-r1-new-field-not-reset", "C12", "C12.R1", "base/logrecord.go", "\tUnescaped bool      // Whether the main message field has been un-escaped. Multi-line logs start with true.\n", "\tUnescaped bool      // Whether the main message field has been un-escaped. Multi-line logs start with true.\n\tSpilled   bool      // set by a transform\n", "any transform setting the new flag: it sticks to recycled records"),
    M("c12-r1-unescaped-not-set-on-pass", "C12", "C12.R1", SP, "\trecord.Unescaped = strings.IndexByte(remaining, '\\n') != -1\n", "\tif strings.IndexByte(remaining, '\\n') != -1 {\n\t\trecord.Unescaped = true\n\t}\n", "a single-line record after a recycled multi-line record is not unescaped"),
    M("c12-r2-use-after-release", "C12", "C12.R2", LPW, "\t\t\ticounter.CountRecordDrop(record)\n\t\t\tworker.deallocator.Release(record)\n", "\t\t\tworker.deallocator.Release(record)\n\t\t\ticounter.CountRecordDrop(record)\n", "dropped record recycled by a concurrent connection before its length is counted"),
    M("c12-r3-transient-map-key", "C12", "C12.R3", LCM, "\tlm.localMap[permanentMergedKey] = newLocalCache", "\tlm.localMap[util.StringFromBytes(tempMergedKey)] = newLocalCache", "the key buffer is reused for the next lookup: the stored key silently changes"),
    M("c12-r3-transient-label", "C12", "C12.R3", LPCS, "\t\t\tinputCounter:   NewLogInputCounter(pcounter.factory.AddOrGetPrefix(\"\", pcounter.metricKeyNames, permKeys)),", "\t\t\tinputCounter:   NewLogInputCounter(pcounter.factory.AddOrGetPrefix(\"\", pcounter.metricKeyNames, tempKeys)),", "label values change when the record buffer is recycled"),
    M("c12-r6-revert-timezone-key-copy", "C12", "C12.R6", RFC, "\t\t\ttimezoneCache[util.DeepCopyString(tzStr)] = location", "\t\t\ttimezoneCache[tzStr] = location", "lines > 1 KiB (pooled buffers) with zones of equal length: original defect D28", more=[(RFC, "\t\"time\"\n\n\t\"github.com/relex/slog-agent/util\"\n", "\t\"time\"\n")]),
    M("c12-r6-last-value-memo", "C13", "C12.R6", "transform/tparsetime/tparsetime.go", "\terrorCounter  func(length int)\n}", "\terrorCounter  func(length int)\n\tlastValue     string\n\tlastTime      time.Time\n}", "identical consecutive timestamps in pooled buffers: the memo key is overwritten by the next line", more=[("transform/tparsetime/tparsetime.go", "\tvalue := tf.keyLocator.Get(record.Fields)\n\ttm, err := parseRFC3339Timestamp(value, tf.timezoneCache)\n", "\tvalue := tf.keyLocator.Get(record.Fields)\n\tif value == tf.lastValue && len(value) > 0 {\n\t\trecord.Timestamp = tf.lastTime\n\t\treturn base.PASS\n\t}\n\ttm, err := parseRFC3339Timestamp(value, tf.timezoneCache)\n\tif err == nil {\n\t\ttf.lastValue, tf.lastTime = value, tm\n\t}\n")]),
    B("c12-r6-benign-last-value-memo-copied", "C13", "transform/tparsetime/tparsetime.go", "\terrorCounter  func(length int)\n}", "\terrorCounter  func(length int)\n\tlastValue     string\n\tlastTime      time.Time\n}", more=[("transform/tparsetime/tparsetime.go", "\tvalue := tf.keyLocator.Get(record.Fields)\n\ttm, err := parseRFC3339Timestamp(value, tf.timezoneCache)\n", "\tvalue := tf.keyLocator.Get(record.Fields)\n\tif value == tf.lastValue && len(value) > 0 {\n\t\trecord.Timestamp = tf.lastTime\n\t\treturn base.PASS\n\t}\n\ttm, err := parseRFC3339Timestamp(value, tf.timezoneCache)\n\tif err == nil {\n\t\ttf.lastValue, tf.lastTime = strings.Clone(value), tm\n\t}\n"), ("transform/tparsetime/tparsetime.go", "import (\n\t\"fmt\"\n", "import (\n\t\"fmt\"\n\t\"strings\"\n")]),
    M("c12-r4-template-result-aliases-buffer", "C12", "C12.R4", STPL, "\treturn util.DeepCopyStringFromBytes(buf), buf[:0]\n", "\treturn util.StringFromBytes(buf), buf[:0]\n", "addFields with a multi-part template in an input's extractions: two records of one batch share the value"),
    M("c12-r7-template-result-aliases-buffer", "C12", "C12.R7", STPL, "\treturn util.DeepCopyStringFromBytes(buf), buf[:0]\n", "\treturn util.StringFromBytes(buf), buf[:0]\n", "same change, seen from the record side: the field stored by addFields is backed by the transform's buffer"),
    M("c12-r7-unsafe-in-transform", "C12", "C12.R7", "transform/tunescape/tunescape.go", "import (\n", "import (\n\t\"unsafe\"\n", "a private bytes-to-string alias invisible to the aliasing rules", more=[("transform/tunescape/tunescape.go", "var unescaper = bsupport.NewSyslogUnescaper()\n", "var unescaper = bsupport.NewSyslogUnescaper()\n\nvar _ = unsafe.Sizeof(0)\n")]),
    B("c12-r7-benign-in-place-rewrite", "C12", "transform/ttruncate/ttruncate.go", "\t\ttf.keyLocator.Set(record.Fields, util.StringFromBytes(valueOverwritten))", "\t\tnewValue := util.StringFromBytes(valueOverwritten)\n\t\ttf.keyLocator.Set(record.Fields, newValue)"),
    M("c07-r3-cut-after-clean", "C07", "C07.R3", LPCS, "\t\t\tpermKeys[i] = strings.ToValidUTF8(key, \"\\uFFFD\")\n", "\t\t\tpermKeys[i] = strings.ToValidUTF8(key, \"\\uFFFD\")\n\t\t\tif len(permKeys[i]) > 256 {\n\t\t\t\tpermKeys[i] = permKeys[i][:256]\n\t\t\t}\n", "a key value over 256 bytes with a multi-byte sequence across offset 256"),
    B("c07-r3-benign-cut-before-clean", "C07", LPCS, "\t\t\tpermKeys[i] = strings.ToValidUTF8(key, \"\\uFFFD\")\n", "\t\t\tif len(key) > 256 {\n\t\t\t\tkey = key[:256]\n\t\t\t}\n\t\t\tpermKeys[i] = strings.ToValidUTF8(key, \"\\uFFFD\")\n"),
    M("c06-r6-lowercase-keys-for-id", "C06", "C06.R6", LCM, "\tgm.globalMutex.Lock()\n\tobj, found := gm.globalMap[mergedKey]\n", "\tfor i, k := range keys {\n\t\tkeys[i] = strings.ToLower(k)\n\t}\n\tgm.globalMutex.Lock()\n\tobj, found := gm.globalMap[mergedKey]\n", "key values differing only in case: routed to two pipelines, one tag and one queue directory", more=[(LCM, "import (\n\t\"strconv\"\n", "import (\n\t\"strconv\"\n\t\"strings\"\n")]),
    B("c06-r6-benign-read-only-loop", "C06", ORC, "\toutputTag := o.tagBuilder.Build(keys)\n", "\tfor i, key := range keys {\n\t\tif len(key) == 0 {\n\t\t\to.logger.Debugf(\"empty key value at %d\", i)\n\t\t}\n\t}\n\toutputTag := o.tagBuilder.Build(keys)\n"),
    M("c15-r6-memo-keyed-by-seconds", "C13", "C15.R6", "transform/tparsetime/tparsetime.go", "\terrorCounter  func(length int)\n}", "\terrorCounter  func(length int)\n\tlastValue     string\n\tlastTime      time.Time\n}", "two records with the same second but different fractions or zones: the second gets the first one's instant", more=[("transform/tparsetime/tparsetime.go", "\tvalue := tf.keyLocator.Get(record.Fields)\n\ttm, err := parseRFC3339Timestamp(value, tf.timezoneCache)\n", "\tvalue := tf.keyLocator.Get(record.Fields)\n\tif len(value) >= 19 && value[:19] == tf.lastValue {\n\t\trecord.Timestamp = tf.lastTime\n\t\treturn base.PASS\n\t}\n\ttm, err := parseRFC3339Timestamp(value, tf.timezoneCache)\n\tif err == nil {\n\t\ttf.lastValue, tf.lastTime = strings.Clone(value[:19]), tm\n\t}\n"), ("transform/tparsetime/tparsetime.go", "import (\n\t\"fmt\"\n", "import (\n\t\"fmt\"\n\t\"strings\"\n")]),
    M("c13-r5-offset-by-hand", "C13", "C13.R5", RFC, "\t\t\ttzName, tzOffset := z.Zone()\n", "\t\t\ttzName, tzOffset := z.Zone()\n\t\t\tif len(tzStr) == 6 && tzStr[0] == '-' {\n\t\t\t\ttzOffset = -(int(tzStr[1]-'0')*10+int(tzStr[2]-'0'))*3600 + (int(tzStr[4]-'0')*10+int(tzStr[5]-'0'))*60\n\t\t\t}\n", "negative offsets with non-zero minutes (-03:30): the sign is applied to the hours only"),
    M("c12-r5-revert-rewriter-flag", "C12", "C10.R4", RUNESC, "\t// The record must not be marked as unescaped here: only the output is unescaped, not the field in the record,\n\t// which is to be serialized again for other outputs\n", "\trecord.Unescaped = true\n", "two outputs with an unescape rewriter: original defect D24"),
]

MLR = "input/tcplistener/multilinereader.go"
SPARSE = "input/syslogparser/syslogparser.go"
SEX = "transform/textractspecial/stringextractor.go"
ESER = "output/fluentdforward/eventserializer.go"
REDACT = "transform/tredactemail/redactemail.go"
UNESC = "util/stringunescape/unescape.go"
TEX = "transform/textract/textract.go"
SCHEMA = "base/logschema.go"
RINLINE = "rewrite/rinline/rinline.go"

MUTANTS += [
    # ---------------- C07
    M("c07-r1-revert-pri-guard", "C07", "C07.R1", SPARSE, "\tif len(val) < 3 || val[len(val)-2:] != \">1\" {", "\tif val[len(val)-2:] != \">1\" {", "a line starting with '< ' (one-byte PRI token)"),
    M("c07-r1-revert-rfc3339-guard", "C07", "C07.R1", RFC, "\tif len(t) < 19 || t[4] != '-' ||", "\tif t[4] != '-' ||", "RFC 5424 NIL timestamp '-'"),
    M("c07-r1-revert-trim-guard", "C07", "C07.R1", SEX, "\tif iend < istart {\n\t\treturn \"\"\n\t}\n", "", "a label consisting of blanks only"),
    M("c07-r1n-revert-wildcard-check", "C07", "C07.R1n", SEX, "\t\tif position == extractFromStart && len(rightBoundary) == 0 {\n\t\t\treturn emptyExtractor, fmt.Errorf(\"patternParts[2] must not be empty for '*' at start\")\n\t\t}\n", "", "extractHead pattern '\\[*' (wildcard without right boundary)"),
    M("c07-r1n-wrong-boundary-checked", "C07", "C07.R1n", SEX, "\t\tif position == extractFromEnd && len(leftBoundary) == 0 {", "\t\tif position == extractFromEnd && len(rightBoundary) == 0 {", "extractTail pattern '*\\]' (wildcard without left boundary)"),
    M("c07-r1-nil-guard-dropped", "C07", "C07.R1", SEX, "\t\tif validChars != nil && matchValidCharsFromStart(tag, validChars) != len(tag) {", "\t\tif matchValidCharsFromStart(tag, validChars) != len(tag) {", "extractHead with '*' and a right boundary: nil table indexed on every record"),
    M("c07-r1-maxrange-off-by-one", "C07", "C07.R1", SEX, "\t\tif len(s) > maxRange {\n\t\t\tiend = strings.Index(s[:maxRange], rightBoundary)", "\t\tif len(s) >= maxRange {\n\t\t\tiend = strings.Index(s[:maxRange+1], rightBoundary)", "label text exactly maxLen bytes long"),
    M("c07-r1i-offset-not-relocated", "C07", "C07.R1i", MLR, "\t\tmlr.offsetSearch = searchStart - recordStart\n", "\t\tmlr.offsetSearch = searchStart\n", "a multi-line record followed by a partial line: search offset beyond the data, buffer[searchStart:] panics in checkOverflow"),
    M("c07-r1i-partial-reset", "C07", "C07.R1i", MLR, "RESET:\n\tmlr.offsetAppend = 0\n\tmlr.offsetSearch = 0\n", "RESET:\n\tmlr.offsetAppend = 0\n", "buffer overflow reset with a non-zero search offset: next Flush slices beyond the data"),
    M("c07-r1-read-ignores-offset", "C07", "C07.R1", MLR, "\t\tbufferedLength := n + mlr.offsetAppend\n", "\t\tbufferedLength := n + mlr.offsetAppend + 1\n", "any read: one byte of stale data is processed, at the end of the buffer the slice exceeds it"),
    M("c07-r1-searchstart-guard", "C07", "C07.R1", MLR, "\t\tif searchStart > 0 && searchStart < nextEnd {", "\t\tif searchStart < nextEnd {", "first line of a connection: buffer[0:-1]"),
    M("c07-r4-revert-field-guard", "C07", "C07.R1", ESER, "\t\t\t\tif len(buffer)-position-minTailLength < len(fieldKey)+maxStringHeaderLength+len(value) {\n\t\t\t\t\treturn packer.onOverflow(position)\n\t\t\t\t}\n", "", "a field larger than the serialization buffer followed by another field"),
    M("c07-r4-revert-rewriter-guard", "C07", "C07.R1", ESER, "\t\t\t\tif len(buffer)-position-minTailLength < len(fieldKey)+maxStringHeaderLength+maxLength {\n\t\t\t\t\treturn packer.onOverflow(position)\n\t\t\t\t}\n", "", "a rewritten field larger than the serialization buffer"),
    M("c07-r4-guard-forgets-tail", "C07", "C07.R1", ESER, "\t\t\t\tif len(buffer)-position-minTailLength < len(fieldKey)+maxStringHeaderLength+len(value) {", "\t\t\t\tif len(buffer)-position < len(fieldKey)+maxStringHeaderLength+len(value) {", "fields that fill the buffer exactly: the 'environment' key is written past the end"),
    M("c07-r4-env-guard-dropped", "C07", "C07.R1", ESER, "\t\t\tif len(buffer)-position < len(envFieldKey)+maxStringHeaderLength+len(value) {\n\t\t\t\treturn packer.onOverflow(position)\n\t\t\t}\n", "", "environment field values that do not fit after large fields"),
    M("c07-r4c-inline-negative-max", "C07", "C07.R4c", RINLINE, "\t\treturn len(rw.header) + len(fieldValue) + len(rw.separator) + rw.next.MaxFieldLength(value, record)", "\t\treturn len(rw.header) + len(fieldValue) + len(rw.separator) + rw.next.MaxFieldLength(value, record) - 64", "inline rewriter on a short value: negative reservation"),
    M("c07-r1-redact-scan-past-end", "C07", "C07.R1", REDACT, "\tfor sAt < sEnd {\n\t\tif sAt > 0 && validWordChars[src[sAt-1]] && validWordChars[src[sAt+1]] {\n\t\t\treturn sAt", "\tfor sAt <= sEnd {\n\t\tif sAt > 0 && validWordChars[src[sAt-1]] && validWordChars[src[sAt+1]] {\n\t\t\treturn sAt", "a message ending in '@'"),
    M("c07-r1-unescape-limit", "C07", "C07.R1", UNESC, "\tslimit := len(src) - 1\n", "\tslimit := len(src)\n", "a message ending in a backslash"),
    M("c07-r1s-missing-guard-dropped", "C07", "C07.R1s", TEX, "\t\tif locator == base.MissingFieldLocator {\n\t\t\tcontinue\n\t\t}\n", "", "an 'extract' pattern with an unnamed group: fields[-1]"),
    M("c07-r1s-schema-guard-dropped", "C07", "C07.R1s", SCHEMA, "\tif maxFields < len(fieldNames) {", "\tif maxFields < 0 {", "a schema with maxFields below the number of names: fields[loc] beyond the record's slots"),
    M("c07-r1g-client-number-guard", "C07", "C07.R1g", TCP, "\t\tif newClientNumber >= base.MaxClientNumber {", "\t\tif newClientNumber > base.MaxClientNumber {", "descriptor number 262144"),
    M("c07-r1c-maxlength-check-dropped", "C07", "C07.R1c", "transform/ttruncate/ttruncate.go", "\tif c.MaxLength <= 0 {\n\t\treturn fmt.Errorf(\".maxLength must be larger than zero: %d\", c.MaxLength)\n\t}\n", "", "truncate with maxLength -1: valueB[:-1]"),
    M("c07-r0-recover-added", "C07", "C07.R0", LPW, "func (worker *LogProcessingWorker) onTick() {\n", "func (worker *LogProcessingWorker) onTick() {\n\tdefer func() { _ = recover() }()\n", "a recover() changes which panics are fatal: rule set must be re-scoped", expect="violation"),
    B("c07-benign-guard-reordered", "C07", SPARSE, "\tif len(val) < 3 || val[len(val)-2:] != \">1\" {", "\tif n := len(val); n < 3 || val[n-2:] != \">1\" {"),
    B("c07-benign-rfc-guard-split", "C07", RFC, "\tif len(t) < 19 || t[4] != '-' ||", "\tif len(t) < 19 {\n\t\treturn time.Now(), fmt.Errorf(\"invalid timestamp\")\n\t}\n\tif t[4] != '-' ||"),
    B("c07-benign-trim-guard-form", "C07", SEX, "\tif iend < istart {\n\t\treturn \"\"\n\t}\n", "\tif istart > iend {\n\t\treturn \"\"\n\t}\n"),
    B("c07-benign-serializer-guard-form", "C07", ESER, "\t\t\t\tif len(buffer)-position-minTailLength < len(fieldKey)+maxStringHeaderLength+len(value) {", "\t\t\t\tif room := len(buffer) - position - minTailLength; room < len(fieldKey)+maxStringHeaderLength+len(value) {"),
    B("c07-benign-mlr-locals", "C07", MLR, "\t\tmlr.offsetAppend = copy(mlr.buffer, buffer[recordStart:])\n\t\tmlr.offsetSearch = searchStart - recordStart\n", "\t\tremaining := buffer[recordStart:]\n\t\tmlr.offsetAppend = copy(mlr.buffer, remaining)\n\t\tmlr.offsetSearch = searchStart - recordStart\n"),
]

MUTANTS += [
    M("c07-r3-revert-sanitize", "C07", "C07.R3", LPCS, "\t\tfor i, key := range permKeys {\n\t\t\t// field values come from the network; label values must be valid UTF-8 or the metric library panics\n\t\t\tpermKeys[i] = strings.ToValidUTF8(key, \"\\uFFFD\")\n\t\t}\n", "\t\t_ = strings.ToValidUTF8\n", "a metric-key field with a 0xFF byte and any custom counter"),
    M("c07-r3-sanitize-first-only", "C07", "C07.R3", LPCS, "\t\tfor i, key := range permKeys {\n\t\t\t// field values come from the network; label values must be valid UTF-8 or the metric library panics\n\t\t\tpermKeys[i] = strings.ToValidUTF8(key, \"\\uFFFD\")\n\t\t}\n", "\t\tif len(permKeys) > 0 {\n\t\t\tpermKeys[0] = strings.ToValidUTF8(permKeys[0], \"\\uFFFD\")\n\t\t}\n", "two metric keys, the second one not valid UTF-8"),
    M("c07-r2-parser-panics", "C07", "C07.R2", SPARSE, "\tif facility < 0 || facility >= len(syslogprotocol.FacilityNames) {\n\t\tparser.onMalformed(record, fmt.Sprintf(\"invalid syslog facility %d\", facility), input)\n\t\treturn nil\n\t}", "\tif facility < 0 || facility >= len(syslogprotocol.FacilityNames) {\n\t\tpanic(fmt.Sprintf(\"invalid syslog facility %d\", facility))\n\t}", "PRI 999"),
    M("c07-r2-transform-fatal", "C07", "C07.R2", "transform/tparsetime/tparsetime.go", "\t\ttf.errorCounter(record.RawLength)\n", "\t\ttf.errorCounter(record.RawLength)\n\t\ttf.errorLogger.Fatal(\"bad timestamp: \", err)\n", "any unparsable timestamp"),
    B("c07-r3-benign-sanitize-value-form", "C07", LPCS, "\t\tfor i, key := range permKeys {\n\t\t\t// field values come from the network; label values must be valid UTF-8 or the metric library panics\n\t\t\tpermKeys[i] = strings.ToValidUTF8(key, \"\\uFFFD\")\n\t\t}\n", "\t\tfor i := range permKeys {\n\t\t\tpermKeys[i] = strings.ToValidUTF8(permKeys[i], \"?\")\n\t\t}\n"),
]

TPT = "transform/tparsetime/tparsetime.go"
ATOI = "transform/tparsetime/atoi.go"

MUTANTS += [
    # ---------------- C13
    M("c13-r1-revert-length-guard", "C13", "C13.R1", RFC, "\tif len(t) < 19 || t[4] != '-' ||", "\tif t[4] != '-' ||", "timestamp '-'"),
    M("c13-r1-guard-too-short", "C13", "C13.R1", RFC, "\tif len(t) < 19 || t[4] != '-' ||", "\tif len(t) < 17 || t[4] != '-' ||", "an 18-byte timestamp (seconds cut off)"),
    M("c13-r1-atof6-reads-past", "C13", "C13.R1", ATOI, "\t\tfloat64((s[6]-'0'))*0.000001\n\treturn v\n}\n\nfunc atof9", "\t\tfloat64((s[7]-'0'))*0.000001\n\treturn v\n}\n\nfunc atof9", "a six-digit fraction"),
    M("c13-r1-split-scan-past-end", "C13", "C13.R1", RFC, "\t\tfor i < len(s) && s[i] >= '0' && s[i] <= '9' {", "\t\tfor i <= len(s) && s[i] >= '0' && s[i] <= '9' {", "a timestamp ending in digits (no zone)"),
    M("c13-r2-empty-not-counted", "C13", "C13.R2", TPT, "\tvalue := tf.keyLocator.Get(record.Fields)\n\ttm, err", "\tvalue := tf.keyLocator.Get(record.Fields)\n\tif len(value) == 0 {\n\t\treturn base.PASS\n\t}\n\ttm, err", "an empty timestamp token"),
    M("c13-r2-store-on-error", "C13", "C13.R2", TPT, "\t} else {\n\t\trecord.Timestamp = tm\n\t}\n\treturn base.PASS", "\t}\n\trecord.Timestamp = tm\n\treturn base.PASS", "any unparsable timestamp: receive time replaced by time.Now() of the parser"),
    M("c13-r2-error-not-counted", "C13", "C13.R2", TPT, "\t\ttf.errorCounter(record.RawLength)\n", "", "any unparsable timestamp"),
    M("c13-r3-revert-rounding", "C13", "C13.R3", RFC, "int(math.Round(frac*1000000000.0))", "int(frac*1000000000.0 + 0*math.Pi)", "fraction .000129"),
    M("c13-r4-separator-unchecked", "C13", "C13.R4", RFC, " || t[10] != 'T' ||", " ||", "'2019-08-15 15:50:46Z' (space instead of T) is parsed instead of reported"),
    M("c13-r4-error-swallowed", "C13", "C13.R4", RFC, "\tif len(t) < 19 || t[4] != '-' || t[7] != '-' || t[10] != 'T' || t[13] != ':' || t[16] != ':' {\n\t\treturn time.Now(), fmt.Errorf(\"invalid timestamp\")\n\t}", "\tif len(t) < 19 || t[4] != '-' || t[7] != '-' || t[10] != 'T' || t[13] != ':' || t[16] != ':' {\n\t\treturn time.Now(), nil\n\t}", "any malformed timestamp: the parser's own clock replaces the receive time, nothing is counted"),
    B("c13-benign-separators-reordered", "C13", RFC, "t[4] != '-' || t[7] != '-' || t[10] != 'T' || t[13] != ':' || t[16] != ':' {", "t[16] != ':' || t[13] != ':' || t[10] != 'T' || t[7] != '-' || t[4] != '-' {"),
    B("c13-benign-round-variable", "C13", RFC, "\treturn time.Date(year, time.Month(month), date, hour, min, sec, int(math.Round(frac*1000000000.0)), location), nil", "\tnsec := math.Round(frac * 1e9)\n\treturn time.Date(year, time.Month(month), date, hour, min, sec, int(nsec), location), nil"),
]

MUTANTS += [
    # ---------------- C09.R3
    M("c09-r3-facility-upper-bound", "C09", "C09.R3", SPARSE, "\tif facility < 0 || facility >= len(syslogprotocol.FacilityNames) {", "\tif facility < 0 || facility > len(syslogprotocol.FacilityNames) {", "PRI 192..199 (facility 24)"),
    M("c09-r3-facility-lower-bound", "C09", "C09.R3", SPARSE, "\tif facility < 0 || facility >= len(syslogprotocol.FacilityNames) {", "\tif facility >= len(syslogprotocol.FacilityNames) {", "PRI '-8' (strconv.Atoi accepts a sign)"),
    M("c09-r3-severity-mask", "C09", "C09.R3", SPARSE, "\tseverity := priVal & 0b111\n", "\tseverity := priVal & 0b1111\n", "PRI 8..15: severity 8 with an 8-entry table"),
    M("c09-r3-mapping-length-unchecked", "C09", "C09.R3", SPARSE, "\t} else if len(levelMapping) != 8 {\n\t\treturn nil, fmt.Errorf(\"level mapping should have 8 elements not %d\", len(levelMapping))\n\t}", "\t}", "a level mapping with 7 entries and severity 7"),
    M("c09-r3-pri-slice", "C09", "C09.R3", SPARSE, "\tpri := val[1 : len(val)-2]\n", "\tpri := val[2 : len(val)-2]\n", "PRI token '<>1': val[2:1]"),
    B("c09-r3-benign-severity-mod", "C09", SPARSE, "\tseverity := priVal & 0b111\n", "\tseverity := priVal & 7\n"),
]

ENCC = "output/fastmsgpack/encodecollections.go"

MUTANTS += [
    # ---------------- C10
    M("c10-r1-string4-boundary", "C10", "C10.R1", ESER, "\t\t\t\tcase len(value) < 16:\n\t\t\t\t\tposition = fastmsgpack.EncodeString4(buffer, position, value)\n\t\t\t\tcase len(value) < 65536:\n\t\t\t\t\tposition = fastmsgpack.EncodeString16(buffer, position, value)\n\t\t\t\tdefault:\n\t\t\t\t\tposition = fastmsgpack.EncodeString32(buffer, position, value)\n\t\t\t\t}\n\t\t\t}\n\t\t\trootMapSize++", "\t\t\t\tcase len(value) <= 16:\n\t\t\t\t\tposition = fastmsgpack.EncodeString4(buffer, position, value)\n\t\t\t\tcase len(value) < 65536:\n\t\t\t\t\tposition = fastmsgpack.EncodeString16(buffer, position, value)\n\t\t\t\tdefault:\n\t\t\t\t\tposition = fastmsgpack.EncodeString32(buffer, position, value)\n\t\t\t\t}\n\t\t\t}\n\t\t\trootMapSize++", "a field value of exactly 16 bytes"),
    M("c10-r1-string16-boundary", "C10", "C10.R1", ESER, "\t\t\tcase len(value) < 65536:\n\t\t\t\tposition = fastmsgpack.EncodeString16(buffer, position, value)\n\t\t\tdefault:\n\t\t\t\tposition = fastmsgpack.EncodeString32(buffer, position, value)\n\t\t\t}\n\t\t}\n\t}\n", "\t\t\tcase len(value) <= 65536:\n\t\t\t\tposition = fastmsgpack.EncodeString16(buffer, position, value)\n\t\t\tdefault:\n\t\t\t\tposition = fastmsgpack.EncodeString32(buffer, position, value)\n\t\t\t}\n\t\t}\n\t}\n", "an environment field value of exactly 65536 bytes"),
    M("c10-r1-maplen4-boundary", "C10", "C10.R1", ESER, "\tswitch {\n\tcase len(fields)+1 < 16:\n\t\tposition = fastmsgpack.ReserveLen4(position)", "\tswitch {\n\tcase len(fields)+1 <= 16:\n\t\tposition = fastmsgpack.ReserveLen4(position)", "a schema of 15 fields all present: map of 16 entries in a 4-bit header",
      more=[(ESER, "\tcase len(fields)+1 < 16: // use the same length type as reserved", "\tcase len(fields)+1 <= 16: // use the same length type as reserved")]),
    M("c10-r2-patch-width-differs", "C10", "C10.R2", ESER, "\t\t\t\t\tcase maxLength < 65536: // use the same length type as reserved\n\t\t\t\t\t\tfastmsgpack.EncodeStringLen16(buffer, reservedLengthPosition, actualLength)", "\t\t\t\t\tcase actualLength < 65536: // use the same length type as reserved\n\t\t\t\t\t\tfastmsgpack.EncodeStringLen16(buffer, reservedLengthPosition, actualLength)", "maximum >= 65536 but actual length below: 3-byte header patched over a 5-byte reservation"),
    M("c10-r2-rootmap-predicate-differs", "C10", "C10.R2", ESER, "\tcase len(fields)+1 < 16: // use the same length type as reserved", "\tcase rootMapSize < 16: // use the same length type as reserved", "16+ schema fields of which fewer than 15 are present"),
    M("c10-r3-count-skipped-field", "C10", "C10.R3", ESER, "\t\t\tif fieldMasks[i] || len(value) == 0 {\n\t\t\t\tcontinue\n\t\t\t}\n", "\t\t\tif fieldMasks[i] || len(value) == 0 {\n\t\t\t\trootMapSize++\n\t\t\t\tcontinue\n\t\t\t}\n", "any hidden or empty field: announced map larger than written"),
    M("c10-r3-rewritten-not-counted", "C10", "C10.R3", ESER, "\t\t\t\tposition += actualLength\n\t\t\t} else {", "\t\t\t\tposition += actualLength\n\t\t\t\tcontinue\n\t\t\t} else {", "any rewritten field: pair written but not counted"),
    M("c10-r3-count-starts-at-zero", "C10", "C10.R3", ESER, "\trootMapSize := 1 // +1 for nested \"environment\" map", "\trootMapSize := 0 // +1 for nested \"environment\" map", "every record: map announces one entry too few"),
    M("c10-r3-env-skips-empty", "C10", "C10.R3", ESER, "\t\t\tenvFieldKey := serializedEnvFieldKeys[i]\n\t\t\tvalue := loc.Get(fields)\n", "\t\t\tenvFieldKey := serializedEnvFieldKeys[i]\n\t\t\tvalue := loc.Get(fields)\n\t\t\tif len(value) == 0 {\n\t\t\t\tcontinue\n\t\t\t}\n", "an empty environment field: announced environment map larger than written"),
    M("c10-r5-inline-writes-unaccounted", "C10", "C10.R5", RINLINE, "\t\tend += copy(buffer[end:], rw.separator)\n", "\t\tend += copy(buffer[end:], rw.separator)\n\t\tend += copy(buffer[end:], rw.trailer)\n", "inline rewriter with a trailer: more bytes than the reserved maximum",
      more=[(RINLINE, "type inlineRewriter struct {\n", "type inlineRewriter struct {\n\ttrailer string\n")]),
    B("c10-benign-switch-to-if", "C10", ESER, "\t\t// encode the length of environment map\n\t\tswitch {\n\t\tcase len(envFieldLocators) < 16:\n\t\t\tposition = fastmsgpack.EncodeMapLen4(buffer, position, len(envFieldLocators))\n\t\tdefault:\n\t\t\tposition = fastmsgpack.EncodeMapLen16(buffer, position, len(envFieldLocators))\n\t\t}", "\t\t// encode the length of environment map\n\t\tif len(envFieldLocators) < 16 {\n\t\t\tposition = fastmsgpack.EncodeMapLen4(buffer, position, len(envFieldLocators))\n\t\t} else {\n\t\t\tposition = fastmsgpack.EncodeMapLen16(buffer, position, len(envFieldLocators))\n\t\t}"),
]

QDIRS = "buffer/hybridbuffer/queuedirs.go"

MUTANTS += [
    M("c01-r8-recovery-in-feeder-goroutine", "C05", "C01.R8", BUF, "\tbuf.recoverExistingChunks()\n\tgo buf.feeder.Run()\n", "\tgo func() {\n\t\tbuf.recoverExistingChunks()\n\t\tbuf.feeder.Run()\n\t}()\n", "restart with a backlog while clients reconnect at once: new chunks overtake recovered ones"),
    M("c01-r8-recovery-deferred", "C05", "C01.R8", BUF, "\tbuf.recoverExistingChunks()\n\tgo buf.feeder.Run()\n", "\tdefer buf.recoverExistingChunks()\n\tgo buf.feeder.Run()\n", "feeder starts on an empty queue; harmless alone but recovery no longer precedes the feeder"),
    B("c01-r8-benign-feeder-in-closure", "C05", BUF, "\tbuf.recoverExistingChunks()\n\tgo buf.feeder.Run()\n", "\tbuf.recoverExistingChunks()\n\tgo func() {\n\t\tbuf.logger.Debug(\"feeder starting\")\n\t\tbuf.feeder.Run()\n\t}()\n"),
    # ---------------- C06
    M("c06-r1-revert-length-prefix-lcm", "C06", "C06.R1", LCM, "\t\ttempMergedKey = strconv.AppendInt(tempMergedKey, int64(len(tkey)), 10)\n\t\ttempMergedKey = append(tempMergedKey, ':')\n\t\ttempMergedKey = append(tempMergedKey, tkey...)", "\t\t_ = strconv.AppendInt\n\t\ttempMergedKey = append(tempMergedKey, tkey...)", "key tuples ('ab','c') and ('a','bc')"),
    M("c06-r1-revert-length-prefix-metrics", "C06", "C06.R1", LPCS, "\t\ttempMergedKey = strconv.AppendInt(tempMergedKey, int64(len(tkey)), 10)\n\t\ttempMergedKey = append(tempMergedKey, ':')\n\t\ttempMergedKey = append(tempMergedKey, tkey...)", "\t\t_ = strconv.AppendInt\n\t\ttempMergedKey = append(tempMergedKey, tkey...)", "metric key tuples ('ab','c') and ('a','bc')"),
    M("c06-r1-separator-only", "C06", "C06.R1", LCM, "\t\ttempMergedKey = strconv.AppendInt(tempMergedKey, int64(len(tkey)), 10)\n\t\ttempMergedKey = append(tempMergedKey, ':')\n\t\ttempMergedKey = append(tempMergedKey, tkey...)", "\t\t_ = strconv.AppendInt\n\t\ttempMergedKey = append(tempMergedKey, ':')\n\t\ttempMergedKey = append(tempMergedKey, tkey...)", "key values containing ':' : ('a:b','c') and ('a','b:c')"),
    M("c06-r1-length-without-delimiter", "C06", "C06.R1", LCM, "\t\ttempMergedKey = append(tempMergedKey, ':')\n", "", "('2a') vs lengths that continue into digits of the value: '1'+'2…' and '12'+'…'"),
    M("c06-r1-length-of-wrong-thing", "C06", "C06.R1", LCM, "\t\ttempMergedKey = strconv.AppendInt(tempMergedKey, int64(len(tkey)), 10)\n", "\t\ttempMergedKey = strconv.AppendInt(tempMergedKey, int64(len(tempKeys)), 10)\n", "('ab','c') and ('a','bc'): the prefix is the tuple size, not the value length"),
    M("c06-r3-tag-from-first-key", "C06", "C06.R3", ORC, "\toutputTag := o.tagBuilder.Build(keys)\n", "\toutputTag := o.tagBuilder.Build(keys[:1])\n", "two key fields: pipelines differing in the second field share a tag (and Build indexes past the slice)"),
    M("c06-r3-bufferid-constant", "C06", "C06.R3", PIPE, "\t\t\t\toutputLogger,\n\t\t\t\tbufferID,\n", "\t\t\t\toutputLogger,\n\t\t\t\tpair.Name,\n", "two key sets: both queue into the directory named after the output"),
    M("c06-r3-chunkmaker-other-tag", "C06", "C06.R3", PIPE, "\t\t\t\tchunkMaker: pair.OutputConfig.Value.NewChunkMaker(outputLogger, outputTag),", "\t\t\t\tchunkMaker: pair.OutputConfig.Value.NewChunkMaker(outputLogger, bufferID),", "any pipeline: chunks carry the queue id instead of the tag"),
    M("c06-r5-id-file-sanitised", "C06", "C06.R5", QDIRS, "\tif err := os.WriteFile(filepath.Join(path, idFileName), []byte(bufferID), 0o644); err != nil {", "\tif err := os.WriteFile(filepath.Join(path, idFileName), []byte(sanitizeDirName(bufferID)), 0o644); err != nil {", "a key value containing '/': recovered under another key"),
    M("c06-r5-recover-dirname", "C06", "C06.R5", QDIRS, "\t\t\tvalidBufferIDList = append(validBufferIDList, id)\n", "\t\t\tvalidBufferIDList = append(validBufferIDList, name)\n", "any restart with queued chunks: ids carry the hash suffix, pipelines of unknown key sets"),
    B("c06-benign-binary-length", "C06", LCM, "\t\ttempMergedKey = strconv.AppendInt(tempMergedKey, int64(len(tkey)), 10)\n\t\ttempMergedKey = append(tempMergedKey, ':')\n", "\t\t_ = strconv.AppendInt\n\t\ttempMergedKey = binary.BigEndian.AppendUint32(tempMergedKey, uint32(len(tkey)))\n",
      more=[(LCM, "import (\n\t\"strconv\"\n", "import (\n\t\"encoding/binary\"\n\t\"strconv\"\n")]),
    B("c06-benign-delimiter-char", "C06", LCM, "\t\ttempMergedKey = append(tempMergedKey, ':')\n", "\t\ttempMergedKey = append(tempMergedKey, '|')\n"),
]

CHOLD = "base/bconfig/configholder.go"
STPLF = "util/stringtemplate/stringtemplate.go"

MUTANTS += [
    # ---------------- C16.R5 (implicit panics while a configuration is loaded / verified)
    M("c16-r5-holder-length-guard", "C16", "C16.R5", CHOLD, "\tif len(value.Content) < 2 {\n\t\treturn util.NewYamlError(value, \".type is undefined\")\n\t}\n", "\tif len(value.Content) < 1 {\n\t\treturn util.NewYamlError(value, \".type is undefined\")\n\t}\n", "a transform written as a YAML sequence with one element / a mapping key without value"),
    M("c16-r5-wildcard-length-check", "C16", "C16.R5", SEX, "\tcase len(targetWildcard) < 2 || targetWildcard[0] != '[' || targetWildcard[len(targetWildcard)-1] != ']':", "\tcase targetWildcard[0] != '[' || targetWildcard[len(targetWildcard)-1] != ']':", "newStringExtractor with a one-byte wildcard part '[': expression[1:0]"),
    M("c16-r5-split-pattern-bend", "C16", "C16.R5", SEX, "\t\tbend += bstart + 1\n", "\t\tbend += bstart + 2\n", "a pattern ending in its closing bracket, e.g. 'a[bc]': pattern[bend+1:] beyond the end"),
    B("c07-r1-benign-template-start-check", "C07", STPLF, "\t\tif start >= len(v) {\n\t\t\treturn \"\"\n\t\t}\n", ""),  # start < end <= len(v) is tested before the slice: the early return is redundant for safety
    B("c16-r5-benign-holder-guard-form", "C16", CHOLD, "\tif len(value.Content) < 2 {", "\tif n := len(value.Content); n <= 1 {"),
]
