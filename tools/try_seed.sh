#!/bin/bash
# usage: try_seed.sh <patch.diff> <prop> [<prop>...]  — applies the patch to /repo, runs the checks (evidence to a scratch dir), undoes the patch
set -u
patch=$1; shift
export GOFLAGS=-mod=mod GOPROXY=off GOSUMDB=off GOTOOLCHAIN=local
vd=$(mktemp -d /var/tmp/seedverif.XXXX); cp /verif/known-findings.json /verif/properties.jsonl $vd/
git -C /repo apply "$patch" || { echo "patch does not apply"; rm -rf $vd; exit 3; }
for p in "$@"; do
  /verif/bin/slogcheck -repo /repo -property $p -verif $vd | grep -E "violated\]|obligations=|CHECK-BROKEN|^      " | grep -B1 -A1 -E "violated|obligations=|BROKEN" | grep -v "^--"
done
git -C /repo checkout -- .
git -C /repo status --short | head -3
rm -rf $vd
