#!/usr/bin/env python3
"""Prints the prompt given to a fresh sub-agent that seeds a property-breaking change.
usage: seed_prompt.py <seed id, e.g. c01g> <worktree dir> [<one line: ideas already used / areas preferred>]
The agent gets the property record and its own worktree — nothing from /verif."""
import json, sys
sid, wt = sys.argv[1], sys.argv[2]
hint = sys.argv[3] if len(sys.argv) > 3 else ""
pid = "C" + sid[1:3]
rec = None
for l in open("/verif/properties.jsonl"):
    d = json.loads(l)
    if d["id"] == pid:
        rec = d
assert rec, pid
print(f"""You are helping to evaluate a verification effort for the Go project relex/slog-agent (a high-throughput log agent: RFC 5424 syslog over TCP, transforms, hybrid memory/disk chunk buffering, Fluentd Forward output with ACK-based resend).

You have your own scratch git worktree of the repository at {wt} (work ONLY there; never touch /repo or /verif, never read anything under /verif). Every go command needs this environment (there is no network):
  export GOFLAGS=-mod=mod GOPROXY=off GOSUMDB=off GOTOOLCHAIN=local

Here is one semantic property of the project that its users rely on (JSON record):

{json.dumps(rec, indent=1)}

Your task: write ONE realistic change to the project's non-test source that BREAKS this property, while
 (a) the project still compiles (go build ./... && go vet is not required),
 (b) the existing test suite still passes unedited:  go test -vet=off -count=1 ./...   (run it; it takes a few minutes),
 (c) the change looks like something a developer would plausibly commit (an optimisation, a refactoring that goes subtly wrong, a new fast path, a clean-up, a feature) — not sabotage, no dead flags, no comments that give it away,
 (d) the breakage needs something SPECIFIC to manifest: a particular interleaving, a crash or fault at a particular point, a multi-step sequence of operations, an unusual input, or two cooperating sites that each look fine alone. Not something ordinary use would expose at once.

{("Ideas that were already used for this property (do something DIFFERENT, in a different mechanism / place), and areas preferred: " + hint) if hint else ""}

Also write a demonstration: a Go test file (name it zz_seed_demo_test.go, in the package directory where it must live) with one or more tests named TestSeedDemo... that PASS on the original tree and FAIL with your change. The demonstration may use internal APIs of the package, fake connections, temp dirs, goroutines and timeouts as needed, but must be deterministic (no flaky timing) and finish within two minutes.

Deliver, in the directory {wt}/_seed/ :
  patch.diff                 — `git diff` of your change to the non-test source only (the demo test must NOT be in it); it must apply with `git apply` to a clean checkout of the worktree's HEAD
  zz_seed_demo_test.go       — the demonstration test file
  demo_path.txt              — one line: the repository-relative path where the demo file must be placed, e.g. buffer/hybridbuffer/zz_seed_demo_test.go
  AGENT_README.md            — what you changed, why it breaks the property, what it needs in order to manifest, and what you ran (demo on original: pass; demo with change: fail; full suite with change: pass)

Before you finish, verify all of it yourself: with the change applied and the demo file removed the full suite passes; with the demo file in place the demo fails; with the source change reverted by `git apply -R _seed/patch.diff` (demo in place) the demo passes — re-apply it afterwards. NEVER use `git stash` (the stash is shared with other worktrees of this repository). Leave the worktree with your change applied and the _seed directory filled. Reply with a five-line summary.""")
