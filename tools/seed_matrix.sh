#!/bin/bash
# usage: seed_matrix.sh [jobs] — every stored seed against every property (one slogcheck -property all per seed, in scratch copies)
set -u
cd "$(dirname "$0")/.."
export GOFLAGS=-mod=mod GOPROXY=off GOSUMDB=off GOTOOLCHAIN=local
jobs=${1:-8}
root=/var/tmp/seedmatrix.$$; mkdir -p $root
one() {
  id=$1; root=$2
  d=$root/$id; vd=$root/$id.verif; mkdir -p $vd; cp known-findings.json properties.jsonl $vd/
  rsync -a --exclude .git /repo/ $d/
  if ! (cd $d && patch -p1 -s --no-backup-if-mismatch < /verif/seeded/$id/patch.diff); then echo "$id STALE"; rm -rf $d $vd; return; fi
  out=$(bin/slogcheck -repo $d -property all -verif $vd 2>&1)
  props=$(echo "$out" | grep -o "VIOLATION property=C[0-9]*" | sed 's/VIOLATION property=//' | sort -u | tr '\n' ' ')
  echo "$id -> $props"
  rm -rf $d $vd
}
export -f one
ls seeded | xargs -P $jobs -I{} bash -c "one {} $root"
rm -rf $root
