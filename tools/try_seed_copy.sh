#!/bin/bash
# usage: try_seed_copy.sh <abs patch.diff> <prop|all> [<prop>...] — as try_seed.sh, but on a scratch copy of /repo (safe while a sweep runs)
set -u
cd "$(dirname "$0")/.."
patch=$1; shift
export GOFLAGS=-mod=mod GOPROXY=off GOSUMDB=off GOTOOLCHAIN=local GOWORK=off
d=$(mktemp -d /var/tmp/seedcopy.XXXX); vd=$d.verif; mkdir -p $vd; cp known-findings.json properties.jsonl $vd/
rsync -a --exclude .git --exclude _seed /repo/ $d/
(cd $d && patch -p1 -s --no-backup-if-mismatch < "$patch") || { echo "patch does not apply"; rm -rf $d $vd; exit 3; }
for p in "$@"; do
  ${SLOGCHECK_BIN:-bin/slogcheck} -repo $d -property $p -verif $vd 2>&1 | grep -E "^slogcheck property|\[violated\]|^      |CHECK-BROKEN|VIOLATION" | grep -B1 -A1 -E "violated|BROKEN|VIOLATION" | grep -v "^--" | cut -c1-500
done
echo "done"
rm -rf $d $vd
