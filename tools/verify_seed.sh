#!/bin/bash
# usage: verify_seed.sh <seed-dir> <id>
# Confirms in a scratch worktree: demo passes on the original tree, patch applies, builds, the unedited suite
# passes with the patch, demo fails with the patch. Prints a JSON summary line. Removes the worktree.
set -u
sd=$1; id=$2
export GOFLAGS=-mod=mod GOPROXY=off GOSUMDB=off GOTOOLCHAIN=local
wt=/var/tmp/vs-$id
git -C /repo worktree remove --force $wt >/dev/null 2>&1
git -C /repo worktree add -q --detach $wt HEAD || exit 3
cd $wt
demos=()
while read -r line; do
  [ -z "$line" ] && continue
  # demo_path.txt lines: "<file in seed dir> -> <path>" or just "<path>"
  path=$(echo "$line" | sed -E 's/.*(->|:)[[:space:]]*//; s/^[[:space:]]+//; s/[[:space:]]+$//')
  base=$(basename "$path")
  [ -f "$sd/$base" ] || { echo "missing demo file $base"; continue; }
  demos+=("$path")
done < <(grep -E '\.go' $sd/demo_path.txt)
pkgs=()
for d in "${demos[@]}"; do cp "$sd/$(basename $d)" "$wt/$d"; pkgs+=("./$(dirname $d)/"); done
upkgs=$(printf "%s\n" "${pkgs[@]}" | sort -u | tr '\n' ' ')
runs=$(grep -ho 'func Test[A-Za-z0-9_]*' $(for d in "${demos[@]}"; do echo $wt/$d; done) | sed 's/func //' | paste -sd'|')
go test -vet=off -count=1 -timeout 10m -run "^($runs)\$" $upkgs > /var/tmp/vs-$id.orig.log 2>&1; demo_orig=$?
git apply $sd/patch.diff; applied=$?
go build ./... > /var/tmp/vs-$id.build.log 2>&1; build=$?
go test -vet=off -count=1 -timeout 10m -run "^($runs)\$" $upkgs > /var/tmp/vs-$id.mut.log 2>&1; demo_mut=$?
for d in "${demos[@]}"; do rm -f "$wt/$d"; done
go test -vet=off -count=1 -timeout 20m ./... > /var/tmp/vs-$id.suite.log 2>&1; suite=$?
if [ $suite -ne 0 ]; then sleep 5; go test -vet=off -count=1 -timeout 20m ./... > /var/tmp/vs-$id.suite.log 2>&1; suite=$?; fi
cd /; git -C /repo worktree remove --force $wt
echo "{\"id\":\"$id\",\"demo_tests\":\"$runs\",\"demo_on_original_exit\":$demo_orig,\"patch_applies\":$applied,\"build_exit\":$build,\"demo_with_patch_exit\":$demo_mut,\"suite_with_patch_exit\":$suite}"
