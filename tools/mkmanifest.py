#!/usr/bin/env python3
"""Generates /verif/MANIFEST.json from the table below (single source of truth)."""
import json, os

VERIF = os.path.dirname(os.path.dirname(os.path.abspath(__file__)))
ENVP = "GOFLAGS=-mod=mod GOPROXY=off GOSUMDB=off GOTOOLCHAIN=local GOWORK=off"

NOTE = ("Trusted base: go/types, go/ssa and the VTA call graph of golang.org/x/tools v0.29.0 (sound for first-order Go modulo reflection/unsafe), "
        "the Go defer/select/channel semantics encoded in the rules, and the reviewed-table entries reported as 'assumed' obligations. "
        "Path rules are path-insensitive except for constant-argument propagation, return-correlated branches, nil/empty guards on a required call's own operands, and the failure-propagation walker (path-sensitive in nil / non-nil facts of error values). Rules named 'delegation' (C13.R5, C15.R7) check the assumption that a value-level clause is carried by a standard-library primitive and fail as UNDECIDED when the module computes it itself. "
        "Ordering, must-call, exactly-once and lock rules analyse an anchor function together with its private helpers (same-package functions only reached by static calls from it: interprocedural paths with a call stack and path-accurate deferred calls), so extract-method / inline refactorings neither hide a violation nor raise an alarm. Happens-before between goroutines is not modelled.")

CLAIMED = {
    "C01": ("static must-call / ordering / who-may-call analysis over SSA + VTA call graph",
            "Structural necessary conditions of at-least-once delivery, decided on all paths and all callers: final flush chain (connection → sink → orchestrator buffers → worker chunk makers), "
            "teardown order, deletion authority (chunk files are unlinked only from the consumed/corrupted callbacks, the consumed callback only from the acknowledger after an ACK), "
            "hand-back of unsent chunks at stop, recovery wiring at start (recovery synchronous in Start), the final flush of a connection walks exactly the map that Accept fills (append-only local map, Walk/GetOrCreate agree), the unterminated tail of the line buffer is only given up when no further read is reachable, an anonymous ACK is only given by a connection that completes the exchange inside SendChunk. It does not decide that the upstream eventually acknowledges nor byte-exactness; breaking any clause breaks delivery for some schedule.", "§4 C01"),
    "C02": ("static path rules (dominance by error edges, typestate of the in-flight chunk, holder enumeration from types) over SSA",
            "On every path of the client's functions: the delivered-callback follows a successful ACK read of the same iteration and receives the chunk designated by that ACK; "
            "chunks are queued for ACK only after a nil-error send; the in-flight chunk is remembered until queued; collectLeftovers merges every chunk-holding field (enumerated from the struct type); "
            "session results always come from collectLeftovers (directly or through a private wrapper of it), and on every way from the recovery stage to collectLeftovers its first argument is that stage's own leftovers channel; leftovers reach the leftover callback before OnFinished; I/O errors abort the connection; leftovers and new input are never offered in one select and leftovers are tried first; an ACK without a chunk id only comes from a connection that confirms synchronously (sibling rule over the ReadChunkAck implementations). Interleavings themselves are not explored.", "§4 C02"),
}

CLAIMED.update({
    "C03": ("static exactly-once path enumeration with return-correlated summaries, who-may-send/receive, result-use and dominance rules over SSA",
            "On every path: Accept counts a chunk in once and resolves it once (enqueued or dropped) and reaches no blocking operation; Load/Unload failures reach the dropped accounting; the quota test dominates the write and "
            "saved/gauge effects only follow a nil-error write; zero-length chunks are corrupt; the feeder keeps the chunk in hand exactly on abort; single producer/consumer ownership of both queues; sorted and filtered recovery scan; "
            "capacities and spill threshold share their parameters; a chunk is queued still loaded only through the below-threshold edge of the window test; every resolution callback balances the pending gauge; the persistent gauges move at most once per chunk event and only with the files. Byte equality and the numeric size bound are not decided.", "§4 C03"),
    "C04": ("static result-use (byte-count), must-precede and failure-propagation (path-sensitive nil/non-nil error facts) rules over the persistence call tree",
            "Every write/read syscall of the persistence call tree has its byte count consumed in a loop or short-count test, success is only returned after a checked close, the file is created under a temporary name that no chunk-id matcher accepts "
            "(evaluated on the constants) and renamed only after write+close, saved-marking only after a nil-error write, zero-length and unmatched files are never forwarded; no failed call of the persistence tree can be reported as success (path-sensitive in nil/non-nil error facts: shadowed, overwritten or discarded errors); the queue directory handle is stored only by the operator's constructor and the operator of a live buffer is closed only by the chunk manager's Close (no error can switch loading / removing off for the intact chunks). What the kernel does and fsync ordering are assumed.", "§4 C04"),
})

CLAIMED.update({
    "C05": ("static who-may-send/receive/launch analysis, dominance of sort over fill, lock-held dataflow, who-may-write LogChunk.ID",
            "The structural carriers of ordering: each FIFO on the path has one producer role and one consumer goroutine, a flush sends a batch that is never refilled (a fresh copy taken before truncation, or the pending slice handed over and replaced by a newly made one), every leftovers channel is built by the sort-then-fill-with-dedup constructor, "
            "resend precedes new input, the chunk the chunk maker hands on is the one that was open (chunks leave in the order their streams arrived), recovery is sorted and precedes feeder/worker start, chunk ids only come from the generator (counters under its mutex, fixed-width format). Wall-clock monotonicity and the interleavings are not decided.", "§4 C05"),
    "C09": ("static exactly-once path enumeration and must-pass (cleaner between cut and store) over SSA; index safety by the C07 engine",
            "Accounting and truncation clauses of the parser on every path: one of pass/drop per message after RawLength is set, nil exactly on drop paths with one release, overflow counted and UTF-8 clean-up on every path that cuts the message, "
            "one release on input-stage drops; the record's private copy is the whole line; a token split at a delimiter index consumes exactly the delimiter (remainder = token end + 1, proved by the facts engine), so no byte of the line is lost between two header tokens or in front of the message; the cleaner is delegated to the library's ToValidUTF8. Which substring is which header field beyond that is value-level and not decided.", "§4 C09"),
    "C19": ("static exactly-once path enumeration with return-correlated summaries; must-call for counter flushes; operand provenance",
            "Every counter update is tied to the event it describes on all paths (parser, pipeline worker, buffer, client), batched counters are flushed after the last count at stop/close/flush, the metric key set is selected before transforms count; the persistent-chunk gauges move at most once per chunk event. "
            "One known finding (input-stage drops are not accounted). The balance equations as numbers across goroutines are not decided.", "§4 C19"),
})

CLAIMED.update({
    "C17": ("static lock-held must-dataflow (guarded-by), must-precede ordering incl. LIFO of defers, who-may-write",
            "Lock discipline and ordering of the reload machinery on all paths: every access to downstream / slots / addresses every dereference of a sink's slot pointer and every call on a sink value taken from a slot is under the RB-mutex (writes of downstream under the write lock); "
            "reload validates before locking, fails without side effects (what it changed in the wrapper before the new configuration was known to be good — a state flag, a marker — is changed back on every path of the failure branch), and under the lock closes sinks, shuts down, renews, re-creates sinks; the loader is swapped only in the completion closure handed out after parse+compatibility succeeded; every object the closure carries over from the old loader (the record allocator shared with the inputs) was built from configuration sections that the compatibility check reads from both files; "
            "a connection's sink is closed before its descriptor (slot index) is released (closer signal or direct Close); element addresses kept by sinks refer to a container that never moves; the client number given to NewSink is the connection's socket descriptor (unique in the process), not a per-listener number. The interleavings themselves are not explored (not a linearizability argument).", "§4 C17"),
})

CLAIMED.update({
    "C18": ("static enumeration of blocking primitives with bounded-by rules (timer/stop-signal select cases, receive-until-closed, timeouts, deadlines) and a reviewed table; must-precede and signal-once path rules",
            "Every blocking primitive in production functions is bounded by rule or by a reviewed-table entry that states what bounds it (listed as 'assumed' obligations); the stop signal is wired to the active session's abort; "
            "connection I/O runs only after a non-zero deadline was applied; the bufferer closes and signals before its timed wait; listener and connections are closed on stop (a closer goroutine per connection launched before the first read, or — registry form — the connection is registered for a sweep and the stop request is consulted after registering, before the first read); a timeout case on a channel handed in by the caller counts only if every call site passes a time.After made for that call (a timer channel fires once); no Signal/close can run twice on a path. The numeric bound is not decided.", "§4 C18"),
})

CLAIMED.update({
    "C16": ("static sibling cross-check (constructor panics ⊆ verifier checks over canonical argument provenance, delegation and enum obligations), panic reachability, nil-guard dominance, section coverage from struct types",
            "For every configuration type (enumerated from the types having VerifyConfig) each check whose failure makes a constructor panic is performed by the verifier on the same configuration value, nested values are verified by delegation, "
            "switch enumerations agree, no explicit panic is reachable from loading/verification (reviewed invariants aside), optional holders are nil-tested, every section and nested list is verified; no check receives a never-assigned (shadowed) variable, no failed check is reported as success, the loading tree itself is index-safe, a self-decoding type's function field (left zero by yaml.v3 for null, aliased or merged values) is compared with nil on the decoded value. "
            "It does not decide that accepted configurations process records correctly, nor panics inside third-party libraries.", "§4 C16"),
})

CLAIMED.update({
    "C11": ("static exactly-once path enumeration, must-precede (close before read, copy before reset), sibling comparison of the two Chunker implementations, constant agreement of writer/reader suffix tables",
            "Structure of the chunk maker on all paths: one write per stream into the chunk current after roll-over, flush resets, records counted exactly when written, compressor closed before the buffer is read, chunk data is a copy, "
            "id/option/count come from the same intermediate chunk, the id suffix written equals the suffix matched, constructor-wired encoder/buffer pairs are never re-bound, every hand-written 4-bit / 16-bit msgpack header of the chunk framing carries a count proved to fit its width, the compressor handed to a chunk is the library's writer. Well-formedness of the encoded bytes and the limits as numbers are not decided.", "§4 C11"),
    "C12": ("static reset-exhaustiveness over the struct's fields (enumerated from types), use-after-release path rule, backward taint from long-lived sinks to transient-string sources with deep-copy sanitizers, who-may-write",
            "Every LogRecord field is cleared on the recycle path or assigned by every producer, and that path (from Release) is the only way a record gets back into the pool; no use after the final release; transient strings reach long-lived maps/labels/constructors only through a deep copy; scratch buffers do not escape without a copy; no store of a record-transient string into any long-lived field, map or global of the per-record run-time set without a copy; "
            "serialization and rewriting never store into a record. sync.Pool behaviour and sampling state are not decided.", "§4 C12"),
    "C15": ("static control-flow shape rules over the transform chain and container transforms; exactly-once enumeration of the sampling bookkeeping",
            "NARROW claim: only the composition and bookkeeping clauses (first DROP wins; containers return their nested chain's result; non-filtering transforms always PASS; truncate's cut uses the UTF-8 cleaner under the documented guard; drop's counters once per record; no cross-record state other than key-determined caches, whole-input memos and reviewed items; value matchers and extract delegate the match decision to the library on every path; the UTF-8 cleaner returns only what passed the library's ToValidUTF8). "
            "The per-value results of transforms and matchers against a reference interpreter are value-level and are not decided by this family.", "§4 C15"),
})

NOT_YET = {}

CLAIMED.update({
    "C07": ("static index-safety analysis: compiler bounds-check-elimination report + a linear-arithmetic facts engine over SSA (guards, Houdini loop invariants, call-site preconditions, callee summaries, verified struct invariants, Fourier-Motzkin entailment), "
            "plus reachability of explicit panics and a UTF-8 taint rule",
            "For every function reachable from the per-connection / per-record entry points (construction excluded): every index and slice expression is proved in bounds for all inputs (compiler prove pass, or the facts engine, or a reviewed entry with its reason: 16 of 320 sites), "
            "under stated contracts that are each checked on the producer side (schema-sized fields, LogRewriter results, io.Reader/write(2) counts, verified configuration values); every explicit panic/fatal reachable per record is a reviewed internal invariant; "
            "record bytes reach Prometheus label values only through strings.ToValidUTF8; the serializer checks its remaining buffer before every field; nothing recovers from panics. "
            "Not decided: liveness of the listener after bad input, memory exhaustion, panics inside third-party libraries, integer overflow of offsets.", "§4 C07"),
})

CLAIMED.update({
    "C13": ("static index-safety proofs (compiler prove pass + linear facts engine with call-site preconditions), exactly-once path enumeration, dominance and idiom rules over SSA",
            "Totality: every fixed-offset read and slice in the timestamp parser is proved in bounds for strings of every length (no reviewed exceptions); the shape test (length 19 and five separators) dominates every digit read and every failing path returns a non-nil error; "
            "on every path of the transform exactly one of {error counted, Timestamp assigned} happens and the assignment only on the nil-error edge (fallback time kept on errors); the float fraction reaches time.Date only through math.Round; every location given to time.Date is a fixed offset (time.UTC, time.FixedZone, cache values that are such; time.Local only without a stated zone). "
            "The instant of every successfully parsed timestamp is the result of time.Date on the decoded fields and every zone offset the result of time.Parse (the delegation is checked; a hand-written computation fails as undecided). Exactness of the library's calendar arithmetic and rejection of non-digit bytes are not decided.", "§4 C13"),
})

CLAIMED.update({
    "C10": ("static range proofs of header lengths (linear facts engine over SSA), sibling comparison of reserve/back-patch sites by canonical predicate, exactly-once path enumeration per loop iteration, who-may-write analysis",
            "The shape of the hand-rolled MessagePack encoder on every path: every header with a 4-bit or 16-bit length field is called with a length proved to fit (two 16-bit map counts bounded by the schema size are accepted on review); back-patched headers have the width and the selecting predicate of their reservation; "
            "the root map count starts at 1 and is incremented exactly once per emitted pair, the environment map announces the number of locators and writes one key and one value per locator even when empty; serialization never writes the record; every LogRewriter returns 0 <= n <= len(buffer), a non-negative maximum, and accounts for every operand it writes. "
            "The two words of the event time are value.Unix() and value.Nanosecond() of the record's time (delegation checked). Decode equality, the bytes inside fields and escape semantics are not decided.", "§4 C10"),
})

CLAIMED.update({
    "C06": ("static recognition of injective key-encoding idioms over SSA (enumeration of key-building loops by shape, length-prefix rule), provenance agreement of tag / queue id / labels, who-writes/what-is-read rules for the .id file",
            "For all key tuples at once: every map key built from the elements of a []string (pipeline lookup key, metric key-set key; enumerated by shape) is a length-prefixed concatenation, which is injective on tuples of arbitrary byte strings, including empty values and separators; "
            "tag, queue id and metric labels of a pipeline derive from the same key values and every output of the pipeline receives that tag / id; globally stored keys are deep copies; the .id file holds the unsanitised id and recovery returns its content; the pipeline constructor (which builds the tag in a shared scratch buffer) is only invoked with the global map's mutex held. "
            "The pipeline id itself (strings.Join/Split with ',') is not injective: listed as a known finding. Not decided: hash-suffix collisions of directory names, tag-template semantics.", "§4 C06"),
})

NOT_APPLICABLE = {
    "C08": "framing independent of TCP segmentation is an extensional equality between the record sequence under every fragmentation and a reference framer; its truth lives in index arithmetic over runtime offsets, no structural clause short of re-deriving the algorithm is a necessary condition (index SAFETY of multiLineReader is decided under C07)",
    "C14": "completeness/exactness of e-mail redaction is a language-recognition property of a hand-written scanner over all texts (value-level); static analysis in reach decides only its index safety (under C07)",
}


def main():
    props = [json.loads(l)["id"] for l in open(os.path.join(VERIF, "properties.jsonl"))]
    checks = []
    na = []
    for p in props:
        if p in CLAIMED:
            tech, text, ref = CLAIMED[p]
            checks.append({
                "property_id": p,
                "quick_cmd": "bin/slogcheck -repo /repo -property %s -tier quick" % p,
                "thorough_cmd": "bin/slogcheck -repo /repo -property %s -tier thorough && python3 selftest/run_mutants.py --property %s --jobs 8 && selftest/run_seeded.sh %s" % (p, p, p),
                "evidence_file": "/verif/evidence/%s.json" % p,
                "replay_cmd_template": "bin/slogcheck -repo /repo -replay {path}",
                "engine": "slogcheck",
                "level_claimed": {"category": "other", "text": text, "design_ref": "DESIGN.md " + ref},
                "level_note": NOTE,
                "technique": tech,
            })
        elif p in NOT_APPLICABLE:
            na.append({"property_id": p, "reason": NOT_APPLICABLE[p]})
        else:
            na.append({"property_id": p, "reason": NOT_YET.get(p, "not claimed in this revision: the static rules for this property (DESIGN.md §4) are not implemented yet")})
    man = {
        "version": 1,
        "setup_cmd": "cd /verif && %s go build -o bin/slogcheck ./cmd/slogcheck" % ENVP,
        "hooks": {
            "guard": "verif",
            "enable": "no hooks are needed: every check analyses /repo's source statically (nothing is instrumented or executed); the tag is nominal",
            "baseline_off_cmd": "cd /repo && %s go test -vet=off -count=1 -timeout 25m ./..." % ENVP,
            "source_commits": [],
            "add_only": True,
        },
        "engines": [{
            "name": "slogcheck", "path": "/verif/cmd/slogcheck", "serves_properties": sorted(CLAIMED),
            "kind_free_text": "repository-specific static analyzer: go/packages + go/ssa (instantiated generics) + VTA call graph; must-call/ordering, who-may-call/write, exactly-once, result-use, lock discipline, config verifier/constructor agreement, index-safety rules",
        }],
        "checks": checks,
        "not_applicable": na,
        "notes": "All checks are static: they load /repo's current working tree on every run and report file:line + rule + construct. A rule that cannot be decided on the tree (anchor gone, fewer instances than confirmed by hand) is reported as a violated obligation of that rule (CHECK-BROKEN line + VIOLATION, exit 1); exit 2 means the tree could not be loaded or type-checked (never a pass). "
                 "Known findings are listed in /verif/known-findings.json. Mutants and benign variants are in selftest/mutants.py (run by the thorough tier).",
    }
    json.dump(man, open(os.path.join(VERIF, "MANIFEST.json"), "w"), indent=1)
    print("MANIFEST.json: %d checks, %d not_applicable" % (len(checks), len(na)))


if __name__ == "__main__":
    main()
