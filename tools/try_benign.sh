#!/bin/bash
# usage: try_benign.sh <patch.diff> — applies a (supposedly behaviour-preserving) patch to a scratch copy of /repo and runs
# every property on it: prints the violated obligations, if any
set -u
cd "$(dirname "$0")/.."
export GOFLAGS=-mod=mod GOPROXY=off GOSUMDB=off GOTOOLCHAIN=local
d=/var/tmp/benign.$$; vd=$d.verif; mkdir -p $d $vd; cp known-findings.json properties.jsonl $vd/
rsync -a --exclude .git /repo/ $d/
(cd $d && patch -p1 -s --no-backup-if-mismatch < "$1") || { echo "patch does not apply"; rm -rf $d $vd; exit 3; }
bin/slogcheck -repo $d -property all -verif $vd 2>&1 | grep -E "^slogcheck property|\[violated\]|^      |CHECK-BROKEN|VIOLATION" | grep -B1 -A1 -E "violated|BROKEN|VIOLATION" | grep -v "^--" | cut -c1-400
echo "done"
rm -rf $d $vd
