// Demonstration of defect D7 (C07.R4): a record whose fields exceed the fixed serialization buffer
// (2 * InputLogMaxRecordBytes) crashed the agent in fluentdforward.(*eventSerializer).encodeRecord
// with "index out of range" / "slice bounds out of range". Place into test/ and run
// `go test -run TestSerializerOverflow ./test/` on the tree before the fix commit.
package test

import (
	"strings"
	"testing"
	"time"

	"github.com/relex/gotils/logger"
	"github.com/relex/gotils/promexporter/promreg"
	"github.com/relex/slog-agent/base"
	"github.com/relex/slog-agent/input/syslogparser"
	"github.com/relex/slog-agent/input/syslogprotocol"
	"github.com/relex/slog-agent/output/fluentdforward"
)

func TestSerializerOverflow(t *testing.T) {
	schema := syslogprotocol.RFC5424Schema
	allocator := base.NewLogAllocator(schema, 1)
	counter := base.NewLogInputCounter(promreg.NewMetricFactory("d7_", nil, nil))
	parser, err := syslogparser.NewParser(logger.Root(), allocator, schema, nil, counter)
	if err != nil {
		t.Fatal(err)
	}
	ser, err := fluentdforward.NewEventSerializer(logger.Root(), schema, fluentdforward.SerializationConfig{
		EnvironmentFields: []string{},
	})
	if err != nil {
		t.Fatal(err)
	}
	for _, hostLen := range []int{3 << 20, 2<<20 + 400, 2<<20 + 512 - 64, 2<<20 + 512 - 40} {
		line := "<163>1 2019-08-15T15:50:46.866915+03:00 " + strings.Repeat("h", hostLen) + " my-app 123 fn - message"
		rec := parser.Parse([]byte(line), time.Now())
		if rec == nil {
			continue // rejected by the parser: fine
		}
		func() {
			defer func() {
				if r := recover(); r != nil {
					t.Errorf("host of %d bytes: PANIC %v", hostLen, r)
				}
			}()
			stream := ser.SerializeRecord(rec)
			t.Logf("host of %d bytes: serialized to %d bytes", hostLen, len(stream))
		}()
	}
}
