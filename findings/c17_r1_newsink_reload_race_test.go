// Demonstration of defect D19 / C17.R1 (place into run/ and run
// `go test -run TestNewSinkDuringReload ./run/`).
//
// ReloadableOrchestrator.NewSink called downstream.NewSink BEFORE taking the
// read lock. A reload between the two installs a sink that belongs to the old,
// already shut-down orchestrator into the client's slot.
package run

import (
	"testing"
	"time"

	"github.com/relex/slog-agent/base"
	"github.com/stretchr/testify/assert"
)

type stubOrc struct {
	name     string
	delay    time.Duration
	entered  chan struct{}
	shutDown bool
}

type stubSink struct{ owner *stubOrc }

func (o *stubOrc) NewSink(string, base.ClientNumber) base.BufferReceiverSink {
	if o.entered != nil {
		close(o.entered)
		o.entered = nil
		time.Sleep(o.delay)
	}
	return &stubSink{o}
}
func (o *stubOrc) Shutdown()                 { o.shutDown = true }
func (s *stubSink) Accept([]*base.LogRecord) {}
func (s *stubSink) Tick()                    {}
func (s *stubSink) Close()                   {}

func TestNewSinkDuringReload(t *testing.T) {
	entered := make(chan struct{})
	oldOrc := &stubOrc{name: "old", delay: 500 * time.Millisecond, entered: entered}
	newOrc := &stubOrc{name: "new"}
	orc := NewReloadableOrchestrator(oldOrc, func() (CompleteReloadingFunc, error) {
		return func() base.Orchestrator { return newOrc }, nil
	})
	done := make(chan struct{})
	go func() {
		orc.NewSink("client", 3) // a new connection registers ...
		close(done)
	}()
	<-entered
	orc.reload() // ... while SIGHUP reloads the configuration
	<-done
	sink := orc.downstreamSinks[3].(*stubSink)
	assert.False(t, sink.owner.shutDown, "the client's slot holds a sink of the orchestrator that was shut down by the reload")
	assert.Equal(t, "new", sink.owner.name)
}
