// Demonstration of defect D28 (C12.R6, also C13): parseRFC3339Timestamp stores the time-zone substring of the
// record's own field value as a key of its long-lived timezoneCache. Field values of records longer than 1024
// bytes live in a pooled buffer that is recycled for later records, so the cached keys silently change; a later
// timestamp with another offset can then hit a stale entry and is parsed with the WRONG zone offset.
// The test recycles one buffer the way LogAllocator does (same memory, new line written over it) and checks every
// parsed instant against time.Parse. Place into transform/tparsetime/ and run
// `go test -run TestTimezoneCacheKeysSurviveBufferReuse ./transform/tparsetime/` on the tree before the fix commit.
package tparsetime

import (
	"fmt"
	"testing"
	"time"

	"github.com/relex/slog-agent/util"
)

func TestTimezoneCacheKeysSurviveBufferReuse(t *testing.T) {
	cache := make(map[string]*time.Location, 100) // the transform's long-lived cache
	backbuf := make([]byte, len("2019-08-15T15:50:46.866915+03:00"))
	wrong := 0
	first := ""
	n := 0
	for round := 0; round < 2; round++ {
		for h := 0; h < 14; h++ {
			for m := 0; m < 60; m++ {
				ts := fmt.Sprintf("2019-08-15T15:50:46.866915+%02d:%02d", h, m)
				copy(backbuf, ts)                         // the pooled buffer now holds the next record
				value := util.StringFromBytes(backbuf)    // what LogFieldLocator.Get returns: a view of that buffer
				got, err := parseRFC3339Timestamp(value, cache)
				if err != nil {
					t.Fatal(err)
				}
				want, _ := time.Parse(time.RFC3339Nano, ts)
				n++
				if !got.Equal(want) {
					wrong++
					if first == "" {
						_, off := got.Zone()
						first = fmt.Sprintf("%s parsed with offset %+d s (instant %s, want %s)", ts, off, got.UTC(), want.UTC())
					}
				}
			}
		}
	}
	if wrong > 0 {
		t.Errorf("%d of %d timestamps parsed to the wrong instant after their buffer was reused; first: %s (cache has %d entries for 840 distinct zones)", wrong, n, first, len(cache))
	}
}
