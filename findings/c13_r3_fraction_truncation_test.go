// Demonstration of defect D3 (C13.R3): the fraction of a timestamp is assembled in floating point and converted
// with int(frac*1e9), which truncates: many valid timestamps are parsed 1 ns early.
// Place into transform/tparsetime/ (package tparsetime) and run `go test -run TestFractionExact ./transform/tparsetime/`
// on the tree before the fix commit.
package tparsetime

import (
	"fmt"
	"testing"
	"time"
)

func TestFractionExact(t *testing.T) {
	cache := map[string]*time.Location{}
	bad := 0
	first := ""
	for us := 0; us < 1000000; us++ {
		s := fmt.Sprintf("2019-08-15T15:50:46.%06d+03:00", us)
		got, err := parseRFC3339Timestamp(s, cache)
		if err != nil {
			t.Fatal(err)
		}
		if got.Nanosecond() != us*1000 {
			if bad == 0 {
				first = fmt.Sprintf("%s -> %d ns, want %d", s, got.Nanosecond(), us*1000)
			}
			bad++
		}
	}
	if bad > 0 {
		t.Errorf("%d of 1000000 six-digit fractions are not exact; first: %s", bad, first)
	}
}
