// Demonstration of defect D20 / C17.R1 (place into run/ and run
// `go test -run TestShutdownDuringReload ./run/`).
//
// ReloadableOrchestrator.Shutdown read the downstream orchestrator without the
// lock. A shutdown request racing with a SIGHUP reload shut down the OLD
// orchestrator a second time (real orchestrators panic on the double close of
// their pipeline channels) and left the NEW one running: its buffered records
// are never flushed or saved.
package run

import (
	"sync/atomic"
	"testing"
	"time"

	"github.com/relex/slog-agent/base"
	"github.com/stretchr/testify/assert"
)

type countingOrc struct{ shutdowns int32 }

func (o *countingOrc) NewSink(string, base.ClientNumber) base.BufferReceiverSink { return nil }
func (o *countingOrc) Shutdown()                                                   { atomic.AddInt32(&o.shutdowns, 1) }

func TestShutdownDuringReload(t *testing.T) {
	oldOrc, newOrc := &countingOrc{}, &countingOrc{}
	renewing := make(chan struct{})
	orc := NewReloadableOrchestrator(oldOrc, func() (CompleteReloadingFunc, error) {
		return func() base.Orchestrator {
			close(renewing)
			time.Sleep(300 * time.Millisecond) // starting new pipelines takes a while
			return newOrc
		}, nil
	})
	go orc.reload()
	<-renewing
	orc.Shutdown() // SIGTERM while the reload is in progress
	time.Sleep(500 * time.Millisecond)
	assert.EqualValues(t, 1, atomic.LoadInt32(&oldOrc.shutdowns), "the old orchestrator must be shut down exactly once")
	assert.EqualValues(t, 1, atomic.LoadInt32(&newOrc.shutdowns), "the orchestrator created by the reload must be shut down by Shutdown")
}
