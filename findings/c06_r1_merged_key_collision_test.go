// Demonstration of defect D8 (C06.R1): the pipeline lookup key and the metric key-set key were the plain
// concatenation of the key-field values, so two key tuples whose concatenations coincide — ('ab','c') and ('a','bc') —
// were merged into one pipeline / one set of counters. Place into test/ and run
// `go test -run TestKeyTuplesNotMerged ./test/` on the tree before the fix commits.
package test

import (
	"testing"

	"github.com/relex/gotils/promexporter/promreg"
	"github.com/relex/slog-agent/base"
	"github.com/relex/slog-agent/util/localcachedmap"
)

func TestKeyTuplesNotMerged(t *testing.T) {
	created := 0
	gm := localcachedmap.NewGlobalMap(
		func(keys []string, onStopped func()) int { created++; return created },
		func(obj int) {},
		func(obj int) int { return obj },
	)
	lm := gm.MakeLocalMap()
	a := lm.GetOrCreate([]string{"ab", "c"}, func([]string) {})
	b := lm.GetOrCreate([]string{"a", "bc"}, func([]string) {})
	c := lm.GetOrCreate([]string{"abc", ""}, func([]string) {})
	if a == b || a == c || b == c || created != 3 {
		t.Errorf("LocalCachedMap: ('ab','c') -> object %d, ('a','bc') -> object %d, ('abc','') -> object %d, %d objects created (want 3 distinct)", a, b, c, created)
	}

	schema := base.MustNewLogSchema([]string{"host", "app", "log"})
	locs := []base.LogFieldLocator{schema.MustCreateFieldLocator("host"), schema.MustCreateFieldLocator("app")}
	pc := base.NewLogProcessCounter(promreg.NewMetricFactory("d8_", nil, nil), schema, locs, []string{"out"})
	c1 := pc.SelectMetricKeySet(schema.NewTestRecord1(base.LogFields{"ab", "c", "x"}))
	c2 := pc.SelectMetricKeySet(schema.NewTestRecord1(base.LogFields{"a", "bc", "x"}))
	if c1 == c2 {
		t.Errorf("SelectMetricKeySet: ('ab','c') and ('a','bc') share one input counter set")
	}
}
