package run

import (
	"context"
	"fmt"
	"net"
	"os"
	"os/exec"
	"strings"
	"testing"
	"time"

	"github.com/relex/fluentlib/protocol/forwardprotocol"
	"github.com/relex/fluentlib/server/receivers"
	"github.com/relex/gotils/logger"
	"github.com/stretchr/testify/assert"
)

// D29: a reload with a valid configuration that only ADDS an output/buffer pair must not bring the agent down.
//
// The record allocator is created by the first Loader with "one reference per output" and is shared with the inputs,
// so Reloader carries it over to every reloaded Loader. If a reload is allowed to change the number of outputs, the
// new pipelines release each record once per NEW output while records still start with the OLD number of references:
// with an added output the first record makes LogAllocator.Release panic ("negative reference count in record") in a
// pipeline goroutine, which terminates the whole process.
//
// Because that panic happens in a background goroutine and cannot be recovered by the test, the scenario is run in a
// child process (the same test binary, selected by an environment variable). The parent asserts the safe behaviour:
// the child survives the reload request and the record sent afterwards reaches the upstream server. Whether the
// reload is rejected (old configuration keeps running) or carried out correctly is not prescribed here.

const d29ChildEnv = "SLOG_AGENT_D29_CHILD"

const (
	d29MarkerAccepted = "D29-CHILD: reload request ACCEPTED"
	d29MarkerRejected = "D29-CHILD: reload request REJECTED: "
	d29MarkerBefore   = "D29-CHILD: record processed before reload"
	d29MarkerAfter    = "D29-CHILD: record processed after reload"
	d29MarkerDone     = "D29-CHILD: done"
)

// d29SecondOutputConf is a second entry for "outputBufferPairs", identical to the one in sampleOutputConf except for
// the name (and the buffer directory, given by the first %s)
var d29SecondOutputConf = strings.ReplaceAll(
	strings.TrimPrefix(sampleOutputConf, "\noutputBufferPairs:\n"),
	"name: testPairName", "name: testPairName2")

func TestD29ReloadWithAdditionalOutputKeepsProcessingRecords(t *testing.T) {
	if os.Getenv(d29ChildEnv) == "1" {
		d29RunChild(t)
		return
	}

	ctx, cancel := context.WithTimeout(context.Background(), 90*time.Second)
	defer cancel()

	cmd := exec.CommandContext(ctx, os.Args[0], "-test.run=^"+t.Name()+"$", "-test.v", "-test.count=1")
	cmd.Env = append(os.Environ(), d29ChildEnv+"=1")
	rawOutput, runErr := cmd.CombinedOutput()
	output := string(rawOutput)

	switch {
	case strings.Contains(output, d29MarkerAccepted):
		t.Log("the reload that adds a second output was ACCEPTED")
	case strings.Contains(output, d29MarkerRejected):
		t.Log("the reload that adds a second output was REJECTED")
	}

	// plain string checks instead of assert.Contains, which would dump the whole child output for each failure
	if !strings.Contains(output, d29MarkerBefore) {
		t.Errorf("the scenario itself is broken: no record went through before the reload (child: %v)", runErr)
		t.Logf("child output (tail):\n%s", d29Tail(output))
		return
	}

	ok := assert.NoError(t, runErr, "the agent process must survive a reload that adds an output")
	if strings.Contains(output, "negative reference count in record") {
		t.Errorf("the agent process panicked with \"negative reference count in record\"")
		ok = false
	}
	if !strings.Contains(output, d29MarkerAfter) {
		t.Errorf("the record sent after the reload request was not processed")
		ok = false
	}
	if !strings.Contains(output, d29MarkerDone) {
		t.Errorf("the agent process did not get to its orderly shutdown")
		ok = false
	}
	if !ok {
		t.Logf("child output (tail):\n%s", d29Tail(output))
	}
}

func d29RunChild(t *testing.T) {
	logRecv, outEventCh := receivers.NewEventCollector(5 * time.Second)

	runTestEnv(t, logRecv, sampleConf, func(bufDir string, confFile *os.File, srvAddr net.Addr) {
		// The config before reloading has exactly one output
		ld, confErr := NewReloaderFromConfigFile(confFile.Name(), "d29_")
		if !assert.NoError(t, confErr) {
			return
		}
		assert.Equal(t, 1, len(ld.OutputBuffersPairs))

		orc := ld.StartOrchestrator(logger.Root())
		rorc := orc.(*ReloadableOrchestrator)

		// the syslog input allocates records from the first Loader's allocator, before and after any reloading
		inAddrs, shutdownIn := ld.LaunchInputs(orc)
		assert.Equal(t, 1, len(inAddrs))
		conn, connErr := net.Dial("tcp", inAddrs[0])
		if !assert.NoError(t, connErr) {
			return
		}

		// first record, processed by the pipeline of the original configuration
		d29Send(t, conn, 1)
		if d29Await(t, outEventCh, "1") {
			fmt.Println(d29MarkerBefore)
		}

		// The new config differs only by an additional output/buffer pair
		secondBufDir := t.TempDir()
		newConf := fmt.Sprintf(sampleConf, bufDir, srvAddr.String()) +
			fmt.Sprintf(d29SecondOutputConf, secondBufDir, srvAddr.String())
		assert.NoError(t, os.WriteFile(confFile.Name(), []byte(newConf), 0644))
		{
			// make sure the file is what we think it is: a valid configuration with two outputs
			checkLoader, checkErr := NewLoaderFromConfigFile(confFile.Name(), "d29check_")
			if assert.NoError(t, checkErr) {
				assert.Equal(t, 2, len(checkLoader.OutputBuffersPairs))
			}
		}

		// report the decision; initiating a reload without completing it has no side effect
		if complete, initErr := rorc.initiateReload(); initErr != nil {
			assert.Nil(t, complete)
			fmt.Println(d29MarkerRejected + initErr.Error())
		} else {
			assert.NotNil(t, complete)
			fmt.Println(d29MarkerAccepted)
		}

		// the real thing, same as on SIGHUP
		rorc.reload()

		// second record, processed by whatever pipeline is there after the reload request
		d29Send(t, conn, 2)
		if d29Await(t, outEventCh, "2") {
			fmt.Println(d29MarkerAfter)
		}

		assert.NoError(t, conn.Close())
		shutdownIn()
		orc.Shutdown()
		fmt.Println(d29MarkerDone)
	})
}

func d29Send(t *testing.T, conn net.Conn, sn int) {
	_, sendErr := conn.Write([]byte(fmt.Sprintf(
		"<167>1 2020-07-20T03:48:20.154+03:00 host1 appServ/foo.com 51629 cron.log - Test D29, %d\n", sn)))
	assert.NoError(t, sendErr)
}

// d29Await waits until a log event of the given "sn" arrives at the upstream server
func d29Await(t *testing.T, eventCh <-chan forwardprotocol.EventEntry, sn string) bool {
	timeout := time.After(20 * time.Second)
	for {
		select {
		case evt, ok := <-eventCh:
			if !ok {
				t.Errorf("event channel closed while waiting for sn=%s", sn)
				return false
			}
			if evt.Record["sn"] == sn {
				return true
			}
		case <-timeout:
			t.Errorf("timeout waiting for sn=%s", sn)
			return false
		}
	}
}

func d29Tail(output string) string {
	const maxLen = 4000
	if len(output) <= maxLen {
		return output
	}
	return "...\n" + output[len(output)-maxLen:]
}
