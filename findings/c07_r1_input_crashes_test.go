// Demonstrations of the C07.R1 defects D1, D2, D4, D5 (place into test/ and run
// `go test -run TestInputsNeverPanic ./test/` on the tree BEFORE the fix commits):
// byte strings a client can send that crash the agent (there is no recover()
// anywhere in the module), through the real parse -> transform path.
package test

import (
	"testing"
	"time"

	"github.com/relex/gotils/logger"
	"github.com/relex/gotils/promexporter/promreg"
	"github.com/relex/slog-agent/base"
	"github.com/relex/slog-agent/input/syslogparser"
	"github.com/relex/slog-agent/input/syslogprotocol"
	"github.com/relex/slog-agent/transform/textractspecial"
	"github.com/relex/slog-agent/transform/tparsetime"
	"github.com/relex/slog-agent/util"
)

func noPanic(t *testing.T, name string, f func()) {
	defer func() {
		if r := recover(); r != nil {
			t.Errorf("%s: PANIC %v", name, r)
		}
	}()
	f()
}

func TestInputsNeverPanic(t *testing.T) {
	schema := syslogprotocol.RFC5424Schema
	allocator := base.NewLogAllocator(schema, 1)
	counter := base.NewLogInputCounter(promreg.NewMetricFactory("d_", nil, nil))
	parser, err := syslogparser.NewParser(logger.Root(), allocator, schema, nil, counter)
	if err != nil {
		t.Fatal(err)
	}
	// D1: PRI token shorter than two characters
	noPanic(t, "short-pri-token", func() {
		parser.Parse([]byte("< 1 2019-08-15T15:50:46.866915+03:00 local my-app 123 fn - msg"), time.Now())
	})
	// D2: RFC 5424 NIL timestamp
	ptc := &tparsetime.Config{}
	util.UnmarshalYamlString("type: parseTime\nkey: time\nerrorLabel: timeError\n", ptc)
	pt := ptc.NewTransform(schema, logger.Root(), counter)
	noPanic(t, "nil-timestamp", func() {
		rec := parser.Parse([]byte("<163>1 - local my-app 123 fn - a message long enough to pass the length test"), time.Now())
		if rec != nil {
			pt.Transform(rec)
		}
	})
	// D4: label consisting of spaces only (pattern of the sample configuration)
	ehc := &textractspecial.Config{}
	util.UnmarshalYamlString("type: extractHead\nkey: log\npattern: \"\\\\[*\\\\] - \"\nmaxLen: 100\ndestKey: source\n", ehc)
	if verr := ehc.VerifyConfig(schema); verr != nil {
		t.Fatal(verr)
	}
	eh := ehc.NewTransform(schema, logger.Root(), counter)
	noPanic(t, "blank-label", func() {
		rec := parser.Parse([]byte("<163>1 2019-08-15T15:50:46.866915+03:00 local my-app 123 fn - [ ] - hello"), time.Now())
		if rec != nil {
			eh.Transform(rec)
		}
	})
	// D5: wildcard without the delimiting boundary is accepted and crashes on the first record
	wc := &textractspecial.Config{}
	util.UnmarshalYamlString("type: extractHead\nkey: log\npattern: \"\\\\[*\"\nmaxLen: 100\ndestKey: source\n", wc)
	if verr := wc.VerifyConfig(schema); verr == nil {
		w := wc.NewTransform(schema, logger.Root(), counter)
		noPanic(t, "wildcard-without-boundary", func() {
			rec := parser.Parse([]byte("<163>1 2019-08-15T15:50:46.866915+03:00 local my-app 123 fn - [abc hello"), time.Now())
			if rec != nil {
				w.Transform(rec)
			}
		})
	}
}
