// Demonstration of defect D6 (C07.R3): a field used as metric key (or orchestration key) that contains a byte
// sequence which is not valid UTF-8 crashed the agent: Prometheus panics with "label value ... is not valid UTF-8"
// when the new key set's counters are created. Place into test/ and run `go test -run TestInvalidUTF8Keys ./test/`
// on the tree before the fix commit.
package test

import (
	"testing"

	"github.com/relex/gotils/logger"
	"github.com/relex/gotils/promexporter/promreg"
	"github.com/relex/slog-agent/base"
	"github.com/relex/slog-agent/base/bconfig"
	"github.com/relex/slog-agent/orchestrate/obykeyset"
)

func TestInvalidUTF8Keys(t *testing.T) {
	schema := base.MustNewLogSchema([]string{"host", "app", "log"})
	hostLoc := schema.MustCreateFieldLocator("host")
	mfactory := promreg.NewMetricFactory("d6_", nil, nil)
	func() {
		defer func() {
			if r := recover(); r != nil {
				t.Errorf("SelectMetricKeySet: PANIC %v", r)
			}
		}()
		pc := base.NewLogProcessCounter(mfactory, schema, []base.LogFieldLocator{hostLoc}, []string{"out"})
		pc.RegisterCustomCounter("demo") // as the drop / parseTime transforms do
		rec := schema.NewTestRecord1(base.LogFields{"ho\xffst", "app", "message"})
		pc.SelectMetricKeySet(rec)
	}()
	func() {
		defer func() {
			if r := recover(); r != nil {
				t.Errorf("orchestrator newPipeline: PANIC %v", r)
			}
		}()
		started := 0
		orc := obykeyset.NewOrchestrator(logger.Root(), schema, []string{"host"}, "tag.$host", mfactory,
			func(parentLogger logger.Logger, metricCreator promreg.MetricCreator, input <-chan []*base.LogRecord, bufferID string, outputTag string, onStopped func()) {
				started++
				metricCreator.AddOrGetCounter("demo_total", "what any pipeline worker does first", nil, nil).Inc()
				go func() {
					for range input {
					}
					onStopped()
				}()
			}, nil)
		sink := orc.NewSink("client", 1)
		rec := schema.NewTestRecord1(base.LogFields{"ho\xffst", "app", "message"})
		sink.Accept([]*base.LogRecord{rec})
		sink.Close()
		orc.Shutdown()
		_ = bconfig.PipelineArgs{}
	}()
}
