// Demonstrations of the C16 defects D14-D18, D26 (place into test/ and run
// `go test -run TestAcceptedConfigs ./test/` on the tree BEFORE the fix commits):
// configuration files that run.ParseConfigFile accepts (or crashes on) and that
// then panic when the pipeline is constructed.
package test

import (
	"os"
	"strings"
	"testing"

	"github.com/relex/gotils/channels"
	"github.com/relex/gotils/logger"
	"github.com/relex/gotils/promexporter/promreg"
	"github.com/relex/slog-agent/base"
	"github.com/relex/slog-agent/base/bsupport"
	"github.com/relex/slog-agent/run"
)

func loadMutated(t *testing.T, name string, edit func(string) string) (accepted bool, crashed interface{}) {
	b, err := os.ReadFile("../testdata/config_sample.yml")
	if err != nil {
		t.Fatal(err)
	}
	f := t.TempDir() + "/" + name + ".yml"
	if err := os.WriteFile(f, []byte(edit(string(b))), 0o644); err != nil {
		t.Fatal(err)
	}
	defer func() {
		if r := recover(); r != nil {
			crashed = r
		}
	}()
	conf, schema, _, perr := run.ParseConfigFile(f)
	if perr != nil {
		t.Logf("%s: rejected cleanly: %v", name, perr)
		return false, nil
	}
	// construct what a pipeline constructs
	bsupport.NewTransformsFromConfig(conf.Transformations, schema, logger.Root(), nullCounters{})
	for _, pair := range conf.OutputBuffersPairs {
		pair.OutputConfig.Value.NewSerializer(logger.Root(), schema, "tag")
		pair.OutputConfig.Value.NewForwarder(logger.Root(), nullArgs(), promreg.NewMetricFactory("x_", nil, nil))
	}
	return true, nil
}

func nullArgs() base.ChunkConsumerArgs {
	return base.ChunkConsumerArgs{InputChannel: make(chan base.LogChunk), InputClosed: channels.NewSignalAwaitable(),
		OnChunkConsumed: func(base.LogChunk) {}, OnChunkLeftover: func(base.LogChunk) {}, OnFinished: func() {}}
}

type nullCounters struct{}

func (nullCounters) RegisterCustomCounter(string) func(int) { return func(int) {} }

func mustReplace(t *testing.T, s, old, new string) string {
	if !strings.Contains(s, old) {
		t.Fatalf("anchor %q not found in sample config", old)
	}
	return strings.Replace(s, old, new, 1)
}

func TestAcceptedConfigsNeverPanic(t *testing.T) {
	cases := map[string]func(string) string{
		"no-orchestration-section": func(s string) string { // D18
			i := strings.Index(s, "\norchestration:")
			j := strings.Index(s[i+1:], "\nmetricKeys:")
			return s[:i] + s[i+1+j:]
		},
		"template-slice-bound-overflow": func(s string) string { // D15
			return mustReplace(t, s, "transformations:\n", "transformations:\n  - type: addFields\n    fields:\n      class: \"${app[-99999999999999999999:]}\"\n")
		},
		"extract-unknown-capture": func(s string) string { // D14
			return mustReplace(t, s, "transformations:\n", "transformations:\n  - type: extract\n    key: log\n    pattern: \"(?P<nosuchfield>[a-z]+)\"\n")
		},
		"fluentd-unknown-environment-field": func(s string) string { // D17
			return mustReplace(t, s, "environmentFields: [host, vhost, app, source]", "environmentFields: [host, nosuchfield]")
		},
		"datadog-malformed-address": func(s string) string { // D26
			return mustReplace(t, s, "address: https://http-intake.logs.datadoghq.eu/api/v2/logs", "address: \"http://[::1\"")
		},
		"pair-without-buffer": func(s string) string { // D18
			i := strings.Index(s, "\noutputBufferPairs:")
			return s[:i] + "\noutputBufferPairs:\n  - name: lonely\n    output:\n      type: datadog\n      upstream:\n        address: https://example.org/\n        httpTimeout: 5s\n"
		},
		"extractTail-bad-bracket": func(s string) string { // D16
			return mustReplace(t, s, "transformations:\n", "transformations:\n  - type: extractTail\n    key: log\n    pattern: \":[]\"\n    maxLen: 10\n    destKey: class\n")
		},
	}
	for name, edit := range cases {
		accepted, crashed := loadMutated(t, name, edit)
		if crashed != nil {
			t.Errorf("%s: PANIC (accepted=%v): %v", name, accepted, crashed)
		}
	}
}
