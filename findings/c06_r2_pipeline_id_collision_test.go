// Demonstration of known finding D9 (C06.R2): the pipeline id / queue name is strings.Join(keys, ","), which is not
// injective for key values containing a comma, and recovered ids are split back with strings.Split.
//   ('a,b','c') and ('a','b,c') get two pipelines (distinct lookup keys) but the SAME bufferID "a,b,c", i.e. the same
//   on-disk queue directory; at restart the id "a,b,c" is split into three values and ignored as malformed.
// Place into test/ and run `go test -run TestPipelineIDCollision ./test/`.
package test

import (
	"testing"

	"github.com/relex/gotils/logger"
	"github.com/relex/gotils/promexporter/promreg"
	"github.com/relex/slog-agent/base"
	"github.com/relex/slog-agent/orchestrate/obykeyset"
)

func TestPipelineIDCollision(t *testing.T) {
	schema := base.MustNewLogSchema([]string{"host", "app", "log"})
	var bufferIDs []string
	starter := func(parentLogger logger.Logger, metricCreator promreg.MetricCreator, input <-chan []*base.LogRecord, bufferID string, outputTag string, onStopped func()) {
		bufferIDs = append(bufferIDs, bufferID)
		go func() {
			for range input {
			}
			onStopped()
		}()
	}
	orc := obykeyset.NewOrchestrator(logger.Root(), schema, []string{"host", "app"}, "tag.$host.$app", promreg.NewMetricFactory("d9_", nil, nil), starter, nil)
	sink := orc.NewSink("client", 1)
	sink.Accept([]*base.LogRecord{
		schema.NewTestRecord1(base.LogFields{"a,b", "c", "m1"}),
		schema.NewTestRecord1(base.LogFields{"a", "b,c", "m2"}),
	})
	sink.Close()
	orc.Shutdown()
	if len(bufferIDs) != 2 {
		t.Fatalf("expected two pipelines, got %d", len(bufferIDs))
	}
	if bufferIDs[0] == bufferIDs[1] {
		t.Errorf("two different key tuples share the queue id %q (one queue directory, chunks delivered under either tag)", bufferIDs[0])
	}
	// recovery
	bufferIDs = nil
	orc2 := obykeyset.NewOrchestrator(logger.Root(), schema, []string{"host", "app"}, "tag.$host.$app", promreg.NewMetricFactory("d9b_", nil, nil), starter, []string{"a,b,c"})
	orc2.Shutdown()
	if len(bufferIDs) != 1 {
		t.Errorf("queued chunks of id %q are not reattached at startup: %d pipelines started (the id is split into three values)", "a,b,c", len(bufferIDs))
	}
}
