// Demonstration of defect D24 / C10.R4 (place into rewrite/runescape/ and run
// `go test -run TestRewriteTwice ./rewrite/runescape/` on the tree BEFORE the fix):
// the 'unescape' rewriter marks the record as unescaped although it only wrote
// the unescaped text into the output buffer. A record is serialized once per
// output (and the rewriter runs once per rewritten field), so the second
// serialization gets the raw, still escaped text.
package runescape

import (
	"testing"

	"github.com/relex/slog-agent/base"
	"github.com/relex/slog-agent/util"
	"github.com/stretchr/testify/assert"
)

func TestRewriteTwice(t *testing.T) {
	c := &Config{}
	assert.NoError(t, util.UnmarshalYamlString("type: unescape\n", c))
	rw := c.NewRewriter(base.LogSchema{}, nil)
	rec := &base.LogRecord{}
	msg := `line1\nline2`
	for output := 1; output <= 2; output++ {
		buf := make([]byte, 100)
		n := rw.WriteFieldBody(msg, rec, buf)
		assert.Equal(t, "line1\nline2", string(buf[:n]), "output #%d", output)
	}
}
