// Demonstration of defect D21 / C17.R4 (place into input/tcplistener/ and run
// `go test -run TestSinkClosedBeforeDescriptorReuse ./input/tcplistener/`).
//
// The client number of a connection is its socket descriptor. runConnection
// used to signal the connection closer BEFORE the (deferred) Close of its
// sink: the descriptor was released while the old sink was still registered,
// a new connection could get the same number, and ReloadableOrchestrator then
// overwrote the slot and the late Close of the old sink cleared it (nil
// dereference on the new connection's next Accept).
package tcplistener

import (
	"net"
	"sync"
	"testing"
	"time"

	"github.com/relex/gotils/channels"
	"github.com/relex/gotils/logger"
	"github.com/relex/slog-agent/base"
	"github.com/relex/slog-agent/input/syslogprotocol"
	"github.com/stretchr/testify/assert"
)

type slotRecv struct {
	mu        sync.Mutex
	open      map[base.ClientNumber]int
	conflicts int
	newSink   chan base.ClientNumber
}

type slotSink struct {
	r      *slotRecv
	num    base.ClientNumber
	first  bool
	closed bool
}

func (r *slotRecv) NewSink(_ string, n base.ClientNumber) base.MessageReceiverSink {
	r.mu.Lock()
	defer r.mu.Unlock()
	if r.open[n] > 0 {
		r.conflicts++ // a sink with the same client number is still open
	}
	r.open[n]++
	first := len(r.newSink) == 0 && r.open[n] == 1 && r.conflicts == 0
	select {
	case r.newSink <- n:
	default:
	}
	return &slotSink{r: r, num: n, first: first}
}

func (s *slotSink) Accept([]byte) {}

// Flush of a closing connection's sink is slow (as a real flush into busy pipelines can be)
func (s *slotSink) Flush() {
	if s.first {
		time.Sleep(1500 * time.Millisecond)
	}
}

func (s *slotSink) Close() {
	s.r.mu.Lock()
	defer s.r.mu.Unlock()
	s.r.open[s.num]--
}

func TestSinkClosedBeforeDescriptorReuse(t *testing.T) {
	recv := &slotRecv{open: map[base.ClientNumber]int{}, newSink: make(chan base.ClientNumber, 10)}
	stop := channels.NewSignalAwaitable()
	lsnr, addr, err := NewTCPLineListener(logger.Root(), "localhost:0", syslogprotocol.TestRecordStart, recv, stop)
	assert.NoError(t, err)
	lsnr.Start()

	c1, err := net.Dial("tcp", addr)
	assert.NoError(t, err)
	n1 := <-recv.newSink
	assert.NoError(t, c1.Close()) // EOF on the server side -> FlushAll, (old code: Signal -> socket closed), slow Flush, Close
	time.Sleep(300 * time.Millisecond)

	// new connections while the first sink is still flushing: the lowest free descriptor is handed out
	var conns []net.Conn
	for i := 0; i < 3; i++ {
		c, derr := net.Dial("tcp", addr)
		assert.NoError(t, derr)
		conns = append(conns, c)
		select {
		case n := <-recv.newSink:
			t.Logf("connection %d got client number %d (first was %d)", i, n, n1)
		case <-time.After(time.Second):
		}
	}
	time.Sleep(2 * time.Second)
	for _, c := range conns {
		c.Close()
	}
	stop.Signal()
	lsnr.Stopped().Wait(5 * time.Second)
	recv.mu.Lock()
	defer recv.mu.Unlock()
	assert.Zero(t, recv.conflicts, "a new sink was created for a client number whose previous sink was not closed yet")
}
