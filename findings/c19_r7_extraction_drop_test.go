// Demonstration of the known finding C19.R7 (copy into input/sysloginput/ and run
// `go test -run TestExtractionDropIsNotAccounted ./input/sysloginput/`):
// a record dropped by an input-stage (extraction) transform stays counted as
// input-passed, is never counted as dropped, and never reaches a pipeline counter.
package sysloginput

import (
	"strings"
	"testing"
	"time"

	"github.com/relex/gotils/logger"
	"github.com/relex/gotils/promexporter/promext"
	"github.com/relex/gotils/promexporter/promreg"
	"github.com/relex/slog-agent/base"
	"github.com/relex/slog-agent/input/syslogprotocol"
	"github.com/relex/slog-agent/util"
	"github.com/stretchr/testify/assert"
)

func TestExtractionDropIsNotAccounted(t *testing.T) {
	schema := syslogprotocol.RFC5424Schema
	allocator := base.NewLogAllocator(schema, 1)
	config := &Config{}
	assert.NoError(t, util.UnmarshalYamlString(`
type: syslog
address: localhost:0
levelMapping: [OFF, FATAL, CRIT, ERROR, WARN, NOTICE, INFO, DEBUG]
extractions:
  - type: drop
    match:
      app: !!str-eq my-app
    percentage: 100
    metricLabel: unwanted
`, config))
	assert.NoError(t, config.VerifyConfig(schema))
	mfactory := promreg.NewMetricFactory("demo_", nil, nil)
	counter := base.NewLogInputCounter(mfactory)
	parser, err := config.NewParser(logger.Root(), allocator, schema, counter)
	assert.NoError(t, err)
	rec := parser.Parse([]byte("<163>1 2019-08-15T15:50:46.866915+03:00 local my-app 123 fn - Something"), time.Now())
	assert.Nil(t, rec, "the record is dropped by the extraction transform")
	counter.UpdateMetrics()
	dump := promext.DumpMetrics("", true, false, mfactory)
	t.Log("\n" + dump)
	// what the property requires: the dropped record is not counted as passed (or is counted as dropped)
	assert.True(t, strings.Contains(dump, "demo_dropped_records_total 1") || strings.Contains(dump, "demo_passed_records_total 0"),
		"record dropped at the input stage is still counted as passed and not as dropped")
}
