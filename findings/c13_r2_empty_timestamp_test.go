// Demonstration of defect D27 (C13.R2): an empty timestamp field (two consecutive spaces after the PRI token) was
// passed silently by the parseTime transform: no error was counted although the property requires every string that is
// not shaped like a date-time (explicitly including the empty string) to be reported and counted.
// Place into transform/tparsetime/ and run `go test -run TestEmptyTimestampCounted ./transform/tparsetime/` on the tree
// before the fix commit.
package tparsetime

import (
	"testing"
	"time"

	"github.com/relex/gotils/logger"
	"github.com/relex/gotils/promexporter/promreg"
	"github.com/relex/slog-agent/base"
	"github.com/relex/slog-agent/util"
)

func TestEmptyTimestampCounted(t *testing.T) {
	schema := base.MustNewLogSchema([]string{"time", "log"})
	cfg := &Config{}
	if err := util.UnmarshalYamlString("type: parseTime\nkey: time\nerrorLabel: timeError\n", cfg); err != nil {
		t.Fatal(err)
	}
	counted := 0
	tf := cfg.NewTransform(schema, logger.Root(), countingRegistry{func(int) { counted++ }})
	fallback := time.Unix(1000, 0)
	for _, v := range []string{"", "-", "2019-08-15"} {
		rec := schema.NewTestRecord2(fallback, base.LogFields{v, "msg"})
		before := counted
		tf.Transform(rec)
		if counted != before+1 {
			t.Errorf("timestamp %q: error not counted", v)
		}
		if !rec.Timestamp.Equal(fallback) {
			t.Errorf("timestamp %q: fallback time replaced by %s", v, rec.Timestamp)
		}
	}
	_ = promreg.MetricCreator(nil)
}

type countingRegistry struct{ f func(int) }

func (r countingRegistry) RegisterCustomCounter(label string) func(length int) { return r.f }
